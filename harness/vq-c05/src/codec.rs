//! `--check codec`: totality (T), round trip (R) and layout (L) of the wire codecs (C05).

use crate::{
    gen::{self, Gen, HeaderInput, Trace},
    s2n::{self, PacketKind, Panicked, Unprotected},
    Ctx,
};
use vq_util::{json, mix, Rng};
use vq_wire::{self as w, Frame, Header, LongType, WireError};

pub const PROPERTY: &str = "C05";

fn hex(b: &[u8]) -> String {
    b.iter().map(|x| format!("{x:02x}")).collect()
}

/// short stable slug of a panic message (drops numbers and addresses)
pub fn slug(msg: &str) -> String {
    let mut out = String::new();
    let msg = msg.split(" @ ").next().unwrap_or(msg);
    for c in msg.chars() {
        if c.is_ascii_alphabetic() {
            out.push(c.to_ascii_lowercase());
        } else if !out.ends_with('-') {
            out.push('-');
        }
        if out.len() >= 48 {
            break;
        }
    }
    out.trim_matches('-').to_string()
}

fn panic_violation(ctx: &mut Ctx, entry: &str, p: &Panicked, replay: vq_util::Value) {
    if s2n::panic_in_library(&p.0) {
        ctx.violation(
            PROPERTY,
            format!("panic:{entry}:{}", slug(&p.0)),
            format!("{entry} panicked: {}", p.0),
            replay,
        );
    } else {
        ctx.sum
            .inconclusive
            .push(format!("harness panic in {entry}: {}", p.0));
    }
}

// ---------------------------------------------------------------------------------------
// varints

pub fn check_varint_bytes(ctx: &mut Ctx, b: &[u8]) -> u64 {
    let replay = || json!({"check": "codec", "kind": "varint", "hex": hex(b)});
    let got = match s2n::varint_decode(b) {
        Ok(g) => g,
        Err(p) => {
            panic_violation(ctx, "varint-decode", &p, replay());
            return 0;
        }
    };
    let want = w::varint(b);
    ctx.verbose(|| {
        format!(
            "varint {}: s2n={:?} ref={:?}",
            hex(b),
            got.as_ref().map(|g| (g.value, g.consumed)),
            want
        )
    });
    match (&got, &want) {
        (Some(g), Ok((v, l))) => {
            ctx.sum.count("varint_accepted", 1);
            if g.value != *v || g.consumed != *l {
                ctx.violation(
                    PROPERTY,
                    "layout:varint:value-mismatch".into(),
                    format!(
                        "varint {}: s2n decoded ({}, {} bytes), RFC 9000 section 16 says ({v}, {l} bytes)",
                        hex(b),
                        g.value,
                        g.consumed
                    ),
                    replay(),
                );
            }
            1 + *l as u64
        }
        (None, Err(_)) => {
            ctx.sum.count("varint_rejected", 1);
            0
        }
        (Some(_), Err(_)) => {
            ctx.violation(
                PROPERTY,
                "layout:varint:s2n-accepts-truncated".into(),
                format!(
                    "varint {}: s2n accepts, the reference says truncated",
                    hex(b)
                ),
                replay(),
            );
            0
        }
        (None, Ok(_)) => {
            ctx.violation(
                PROPERTY,
                "layout:varint:s2n-rejects-valid".into(),
                format!("varint {}: s2n rejects a complete varint", hex(b)),
                replay(),
            );
            0
        }
    }
}

pub fn check_varint_value(ctx: &mut Ctx, v: u64) {
    let replay = || json!({"check": "codec", "kind": "varint-value", "value": v});
    let e = match s2n::varint_encode(v) {
        Ok(e) => e,
        Err(p) => {
            panic_violation(ctx, "varint-encode", &p, replay());
            return;
        }
    };
    match e {
        None => {
            if v <= w::VARINT_MAX {
                ctx.violation(
                    PROPERTY,
                    "roundtrip:varint:constructor-rejects-valid".into(),
                    format!("VarInt::new({v}) failed"),
                    replay(),
                );
            } else {
                ctx.sum.count("varint_value_out_of_range_refused", 1);
            }
        }
        Some(e) => {
            if v > w::VARINT_MAX {
                ctx.violation(
                    PROPERTY,
                    "roundtrip:varint:constructor-accepts-out-of-range".into(),
                    format!("VarInt::new({v}) succeeded"),
                    replay(),
                );
                return;
            }
            let mut want = Vec::new();
            w::put_varint(&mut want, v);
            ctx.verbose(|| {
                format!(
                    "varint value {v}: s2n={} ref={} announced={}",
                    hex(&e.bytes),
                    hex(&want),
                    e.announced
                )
            });
            if e.announced != e.bytes.len() {
                ctx.violation(
                    PROPERTY,
                    "roundtrip:size:varint".into(),
                    format!(
                        "VarInt({v}): encoding_size()={} but {} bytes written",
                        e.announced,
                        e.bytes.len()
                    ),
                    replay(),
                );
            } else if e.bytes != want {
                let sig = if e.bytes.len() != want.len() {
                    "encoder:non-minimal-varint:varint"
                } else {
                    "layout:varint:encoder-bytes"
                };
                ctx.violation(
                    PROPERTY,
                    sig.into(),
                    format!(
                        "VarInt({v}) encodes as {}, RFC 9000 section 16 shortest form is {}",
                        hex(&e.bytes),
                        hex(&want)
                    ),
                    replay(),
                );
            } else if !e.exact_fit_ok {
                ctx.violation(
                    PROPERTY,
                    "roundtrip:exact-fit:varint".into(),
                    format!("VarInt({v}): encoding into an exactly sized buffer differs or writes out of bounds"),
                    replay(),
                );
            }
            if let Some(i) = gen::edge_index(v) {
                ctx.sum
                    .set("varint_edges_encoded", format!("{}", gen::EDGES[i]));
            }
        }
    }
}

// ---------------------------------------------------------------------------------------
// frames

/// STREAM: s2n does not remember whether an explicit zero offset was present
fn norm(mut f: Frame) -> Frame {
    if let Frame::Stream {
        has_off, offset, ..
    } = &mut f
    {
        *has_off = *offset != 0;
    }
    f
}

struct RefFrame {
    frame: Frame,
    notes: w::Notes,
    start: usize,
    end: usize,
}

fn ref_frames(b: &[u8]) -> (Vec<RefFrame>, Option<WireError>) {
    let mut c = w::Cur::new(b);
    let mut out = Vec::new();
    while !c.is_empty() {
        let start = c.pos;
        let mut notes = w::Notes::default();
        match w::frame_ex(&mut c, &mut notes) {
            Ok(frame) => out.push(RefFrame {
                frame,
                notes,
                start,
                end: c.pos,
            }),
            Err(e) => return (out, Some(e)),
        }
    }
    (out, None)
}

/// Outcome of one frame-sequence input, used for the signature.
#[derive(Default, Clone, Copy)]
pub struct FrameOutcome {
    pub accepted: u32,
    pub rejected: bool,
    pub soft: bool,
    pub first_type: u64,
}

/// (T)+(L)+(R) for one byte string interpreted as a packet payload.
pub fn check_frames(ctx: &mut Ctx, b: &[u8], class: &str) -> FrameOutcome {
    let replay = || json!({"check": "codec", "kind": "frames", "class": class, "hex": hex(b)});
    let mut outcome = FrameOutcome::default();
    let got = match s2n::decode_frames(b, true) {
        Ok(g) => g,
        Err(p) => {
            panic_violation(ctx, "frame-decode", &p, replay());
            return outcome;
        }
    };
    if got.no_progress {
        ctx.violation(
            PROPERTY,
            "no-progress:frame-decode".into(),
            format!("decoding {} as frames returned Ok without consuming input: the payload loop never ends", hex(b)),
            replay(),
        );
        return outcome;
    }
    let (want, want_err) = ref_frames(b);
    ctx.verbose(|| {
        format!(
            "frames {}\n  s2n: {:?} err={:?}\n  ref: {:?} err={:?}",
            hex(b),
            got.frames
                .iter()
                .map(|f| (&f.frame, f.end))
                .collect::<Vec<_>>(),
            got.error,
            want.iter()
                .map(|f| (&f.frame, f.notes, f.end))
                .collect::<Vec<_>>(),
            want_err
        )
    });
    if let Some(f) = want.first() {
        outcome.first_type = w::frame_type(&f.frame);
    }
    let n = got.frames.len().max(want.len());
    for i in 0..=n {
        match (got.frames.get(i), want.get(i)) {
            (Some(g), Some(r)) => {
                let name = r.frame.name();
                if let Some(why) = r.notes.soft {
                    outcome.soft = true;
                    ctx.sum.count(&format!("soft:{why}:s2n-accepts"), 1);
                }
                if r.notes.type_non_minimal {
                    outcome.soft = true;
                    ctx.sum.count("soft:non-minimal frame type:s2n-accepts", 1);
                }
                if norm(g.frame.clone()) != norm(r.frame.clone()) {
                    let sig = if g.frame.name() != name {
                        format!("layout:kind-mismatch:{name}")
                    } else {
                        format!("layout:field-mismatch:{name}")
                    };
                    ctx.violation(
                        PROPERTY,
                        sig,
                        format!(
                            "frame #{i} of {}: s2n decoded {:?}, the RFC 9000 reference parser {:?}",
                            hex(b),
                            g.frame,
                            r.frame
                        ),
                        replay(),
                    );
                    return outcome;
                }
                if g.end != r.end {
                    ctx.violation(
                        PROPERTY,
                        format!("layout:consumed-mismatch:{name}"),
                        format!(
                            "frame #{i} of {}: s2n consumed up to byte {}, the reference up to {}",
                            hex(b),
                            g.end,
                            r.end
                        ),
                        replay(),
                    );
                    return outcome;
                }
                outcome.accepted += 1;
                ctx.sum.count("frames_accepted", 1);
                ctx.sum.set(
                    "frame_types_decoded",
                    format!("{:#04x}", w::frame_type(&r.frame)),
                );
                // (R) the decoded value re-encoded by s2n
                if g.announced != g.reencoded.len() {
                    ctx.violation(
                        PROPERTY,
                        format!("roundtrip:size:{name}"),
                        format!(
                            "{:?}: encoding_size()={} but the encoder wrote {} bytes",
                            g.frame,
                            g.announced,
                            g.reencoded.len()
                        ),
                        replay(),
                    );
                    return outcome;
                }
                if !g.exact_fit_ok {
                    ctx.violation(
                        PROPERTY,
                        format!("roundtrip:exact-fit:{name}"),
                        format!("{:?}: encoding into an exactly sized buffer differs or writes out of bounds", g.frame),
                        replay(),
                    );
                    return outcome;
                }
                let mut canonical = Vec::new();
                w::put_frame(&mut canonical, &norm(r.frame.clone()));
                if g.reencoded != canonical {
                    // classify: still the same value? minimal varints?
                    let mut c = w::Cur::new(&g.reencoded);
                    let back = w::frame_ex(&mut c, &mut w::Notes::default());
                    let sig = match back {
                        Ok(f) if norm(f.clone()) == norm(r.frame.clone()) && c.is_empty() => {
                            if c.non_minimal {
                                format!("encoder:non-minimal-varint:{name}")
                            } else {
                                format!("roundtrip:bytes:{name}")
                            }
                        }
                        _ => format!("roundtrip:value:{name}"),
                    };
                    ctx.violation(
                        PROPERTY,
                        sig,
                        format!(
                            "{:?}: s2n re-encodes it as {}, the canonical RFC 9000 encoding is {}",
                            g.frame,
                            hex(&g.reencoded),
                            hex(&canonical)
                        ),
                        replay(),
                    );
                    return outcome;
                }
                if b[r.start..r.end] == canonical[..] {
                    ctx.sum.count("frames_canonical_reproduced", 1);
                }
            }
            (None, Some(r)) => {
                // s2n stopped with an error where the reference still sees a frame
                outcome.rejected = true;
                if got.error.is_none() {
                    ctx.violation(
                        PROPERTY,
                        format!("layout:consumed-mismatch:{}", r.frame.name()),
                        format!(
                            "{}: s2n finished after {} frames, the reference sees more",
                            hex(b),
                            i
                        ),
                        replay(),
                    );
                    return outcome;
                }
                if r.notes.type_non_minimal {
                    outcome.soft = true;
                    ctx.sum.count("soft:non-minimal frame type:s2n-rejects", 1);
                } else if let Some(why) = r.notes.soft {
                    outcome.soft = true;
                    ctx.sum.count(&format!("soft:{why}:s2n-rejects"), 1);
                } else {
                    ctx.violation(
                        PROPERTY,
                        format!("layout:s2n-rejects-valid:{}", r.frame.name()),
                        format!(
                            "frame #{i} of {}: s2n fails with {:?}, the reference parser reads {:?}",
                            hex(b),
                            got.error,
                            r.frame
                        ),
                        replay(),
                    );
                }
                return outcome;
            }
            (Some(g), None) => {
                let sig = match want_err {
                    Some(WireError::Truncated) => {
                        format!("layout:s2n-accepts-truncated:{}", g.frame.name())
                    }
                    Some(WireError::UnknownFrame(_)) => {
                        format!("layout:s2n-accepts-unknown-type:{}", g.frame.name())
                    }
                    Some(WireError::Invalid(_)) => {
                        format!("layout:s2n-accepts-invalid:{}", g.frame.name())
                    }
                    None => format!("layout:consumed-mismatch:{}", g.frame.name()),
                };
                ctx.violation(
                    PROPERTY,
                    sig,
                    format!(
                        "frame #{i} of {}: s2n decodes {:?}, the reference parser says {:?}",
                        hex(b),
                        g.frame,
                        want_err
                    ),
                    replay(),
                );
                return outcome;
            }
            (None, None) => {
                match (&got.error, &want_err) {
                    (Some(_), Some(e)) => {
                        outcome.rejected = true;
                        ctx.sum.count("frame_sequences_rejected", 1);
                        let kind = match e {
                            WireError::Truncated => "truncated",
                            WireError::Invalid(_) => "invalid",
                            WireError::UnknownFrame(_) => "unknown-type",
                        };
                        ctx.sum.count(&format!("reject_reason:{kind}"), 1);
                    }
                    (None, None) => {
                        ctx.sum.count("frame_sequences_accepted", 1);
                        if outcome.accepted >= 2 && b.len() < 48 {
                            ctx.sample(|| {
                                json!({"class": class, "hex": hex(b), "accepted_frames":
                                    want.iter().map(|f| f.frame.name()).collect::<Vec<_>>()})
                            });
                        }
                    }
                    (Some(e), None) => {
                        ctx.violation(
                            PROPERTY,
                            "layout:s2n-rejects-valid:end".into(),
                            format!("{}: s2n fails with {e} at the end of a payload the reference accepts", hex(b)),
                            replay(),
                        );
                    }
                    (None, Some(e)) => {
                        ctx.violation(
                            PROPERTY,
                            "layout:s2n-accepts-invalid:end".into(),
                            format!(
                                "{}: s2n consumed everything, the reference says {e:?}",
                                hex(b)
                            ),
                            replay(),
                        );
                    }
                }
                return outcome;
            }
        }
    }
    outcome
}

/// (R) on a generated value: build the s2n value from scratch, encode, compare with the
/// reference encoding, decode again.
pub fn check_frame_value(ctx: &mut Ctx, f: &Frame) {
    let f = norm(f.clone());
    let name = f.name();
    let mut canonical = Vec::new();
    w::put_frame(&mut canonical, &f);
    let replay = || json!({"check": "codec", "kind": "frame-value", "hex": hex(&canonical)});
    let e = match s2n::encode_frame_value(&f) {
        Ok(Some(e)) => e,
        Ok(None) => {
            ctx.sum.count("frame_value_constructor_refused", 1);
            return;
        }
        Err(p) => {
            panic_violation(ctx, "frame-encode", &p, replay());
            return;
        }
    };
    ctx.verbose(|| {
        format!(
            "value {f:?}\n  s2n: {} (announced {})\n  ref: {}",
            hex(&e.bytes),
            e.announced,
            hex(&canonical)
        )
    });
    ctx.sum.count("frame_values_encoded", 1);
    if e.announced != e.bytes.len() {
        ctx.violation(
            PROPERTY,
            format!("roundtrip:size:{name}"),
            format!(
                "{f:?}: encoding_size()={} but the encoder wrote {} bytes",
                e.announced,
                e.bytes.len()
            ),
            replay(),
        );
        return;
    }
    if !e.exact_fit_ok {
        ctx.violation(
            PROPERTY,
            format!("roundtrip:exact-fit:{name}"),
            format!("{f:?}: encoding into an exactly sized buffer differs or writes out of bounds"),
            replay(),
        );
        return;
    }
    if e.bytes != canonical {
        let mut c = w::Cur::new(&e.bytes);
        let back = w::frame_ex(&mut c, &mut w::Notes::default());
        let sig = match back {
            Ok(g) if norm(g.clone()) == f && c.is_empty() && c.non_minimal => {
                format!("encoder:non-minimal-varint:{name}")
            }
            _ => format!("layout:encoder-bytes:{name}"),
        };
        ctx.violation(
            PROPERTY,
            sig,
            format!(
                "{f:?}: s2n encodes {}, RFC 9000 section 19 layout is {}",
                hex(&e.bytes),
                hex(&canonical)
            ),
            replay(),
        );
        return;
    }
    // decode(encode(v)) == v on the s2n side alone
    match s2n::decode_frames(&e.bytes, false) {
        Ok(d) => {
            let ok =
                d.error.is_none() && d.frames.len() == 1 && norm(d.frames[0].frame.clone()) == f;
            // frames whose value breaks a constraint may be refused by the decoder
            let mut c = w::Cur::new(&e.bytes);
            let mut notes = w::Notes::default();
            let _ = w::frame_ex(&mut c, &mut notes);
            if !ok && notes.soft.is_none() {
                ctx.violation(
                    PROPERTY,
                    format!("roundtrip:value:{name}"),
                    format!(
                        "{f:?}: decode(encode(v)) gives {:?} / {:?}",
                        d.frames.iter().map(|x| &x.frame).collect::<Vec<_>>(),
                        d.error
                    ),
                    replay(),
                );
            }
        }
        Err(p) => panic_violation(ctx, "frame-decode", &p, replay()),
    }
}

// ---------------------------------------------------------------------------------------
// packet headers

fn long_kind(t: LongType) -> PacketKind {
    match t {
        LongType::Initial => PacketKind::Initial,
        LongType::ZeroRtt => PacketKind::ZeroRtt,
        LongType::Handshake => PacketKind::Handshake,
        LongType::Retry => PacketKind::Retry,
    }
}

struct RefPacket {
    header: Header,
    notes: w::HeaderNotes,
    start: usize,
    end: usize,
}

fn ref_datagram(b: &[u8], short_dcid_len: usize) -> (Vec<RefPacket>, Option<WireError>) {
    let mut out = Vec::new();
    let mut off = 0;
    while off < b.len() {
        let mut notes = w::HeaderNotes::default();
        match w::header_ex(&b[off..], short_dcid_len, &mut notes) {
            Ok(header) => {
                let len = match &header {
                    Header::Long { packet_len, .. } => *packet_len,
                    _ => b.len() - off,
                };
                out.push(RefPacket {
                    header,
                    notes,
                    start: off,
                    end: off + len,
                });
                if len == 0 {
                    break;
                }
                off += len;
            }
            Err(e) => return (out, Some(e)),
        }
    }
    (out, None)
}

#[derive(Default, Clone, Copy)]
pub struct HeaderOutcome {
    pub accepted: u32,
    pub rejected: bool,
    pub soft: bool,
    pub first: u8,
}

pub fn check_datagram(ctx: &mut Ctx, h: &HeaderInput) -> HeaderOutcome {
    let b = &h.bytes;
    let replay = || {
        json!({"check": "codec", "kind": "datagram", "hex": hex(b),
        "short_dcid_len": h.short_dcid_len, "largest": h.largest})
    };
    let mut outcome = HeaderOutcome {
        first: b.first().copied().unwrap_or(0) >> 4,
        ..Default::default()
    };
    let got = match s2n::decode_datagram(b, h.short_dcid_len, h.largest) {
        Ok(g) => g,
        Err(p) => {
            panic_violation(ctx, "packet-decode", &p, replay());
            return outcome;
        }
    };
    if got.no_progress {
        ctx.violation(
            PROPERTY,
            "no-progress:packet-decode".into(),
            format!(
                "decoding {} as packets returned Ok without consuming input",
                hex(b)
            ),
            replay(),
        );
        return outcome;
    }
    let (want, want_err) = ref_datagram(b, h.short_dcid_len);
    ctx.verbose(|| {
        format!(
            "datagram {} (short dcid len {}, largest {})\n  s2n: {:?} err={:?}\n  ref: {:?} err={:?}",
            hex(b),
            h.short_dcid_len,
            h.largest,
            got.packets,
            got.error,
            want.iter().map(|p| (&p.header, p.notes, p.end)).collect::<Vec<_>>(),
            want_err
        )
    });
    let n = got.packets.len().max(want.len());
    for i in 0..=n {
        match (got.packets.get(i), want.get(i)) {
            (Some(g), Some(r)) => {
                if let Some(why) = r.notes.soft {
                    outcome.soft = true;
                    ctx.sum.count(&format!("soft:{why}:s2n-accepts"), 1);
                }
                let first = b[r.start];
                let mismatch: Option<String> = match &r.header {
                    Header::Short { dcid, .. } => {
                        if g.kind != PacketKind::Short {
                            Some("kind".into())
                        } else if &g.dcid != dcid {
                            Some("dcid".into())
                        } else {
                            None
                        }
                    }
                    Header::VersionNegotiation {
                        dcid,
                        scid,
                        versions,
                    } => {
                        if g.kind != PacketKind::VersionNegotiation {
                            Some("kind".into())
                        } else if &g.dcid != dcid {
                            Some("dcid".into())
                        } else if g.scid.as_ref() != Some(scid) {
                            Some("scid".into())
                        } else if &g.versions != versions {
                            Some("versions".into())
                        } else {
                            None
                        }
                    }
                    Header::Long {
                        ty,
                        version,
                        dcid,
                        scid,
                        token,
                        ..
                    } => {
                        if g.kind != long_kind(*ty) {
                            Some("kind".into())
                        } else if g.version != Some(*version) {
                            Some("version".into())
                        } else if &g.dcid != dcid {
                            Some("dcid".into())
                        } else if g.scid.as_ref() != Some(scid) {
                            Some("scid".into())
                        } else if &g.token != token {
                            Some("token".into())
                        } else {
                            None
                        }
                    }
                };
                if let Some(field) = mismatch {
                    ctx.violation(
                        PROPERTY,
                        format!("layout:header-field-mismatch:{field}"),
                        format!(
                            "packet #{i} of {}: s2n decoded {:?}, the RFC 9000 section 17 reference {:?}",
                            hex(b),
                            g,
                            r.header
                        ),
                        replay(),
                    );
                    return outcome;
                }
                if g.end != r.end {
                    ctx.violation(
                        PROPERTY,
                        "layout:header-length-mismatch".into(),
                        format!(
                            "packet #{i} of {}: s2n says the packet ends at byte {}, the reference at {}",
                            hex(b),
                            g.end,
                            r.end
                        ),
                        replay(),
                    );
                    return outcome;
                }
                outcome.accepted += 1;
                ctx.sum.count("packets_accepted", 1);
                ctx.sum.set("packet_types_decoded", format!("{:?}", g.kind));
                // packet number and payload behind an all-zero header-protection mask
                let pn_offset = match &r.header {
                    Header::Short { dcid, .. } => Some(r.start + 1 + dcid.len()),
                    Header::Long { ty, pn_offset, .. } if *ty != LongType::Retry => {
                        Some(r.start + pn_offset)
                    }
                    _ => None,
                };
                if let (Some(pn_offset), Some(u)) = (pn_offset, &g.unprotected) {
                    let room = r.end - pn_offset;
                    match u {
                        Unprotected::UnprotectError(e) => {
                            // RFC 9001 5.4.2: sampling assumes a 4 byte packet number; with the
                            // zero-length sample of the null key at least 4 bytes must follow
                            if room >= 4 {
                                ctx.violation(
                                    PROPERTY,
                                    "layout:unprotect-rejects-valid".into(),
                                    format!("packet #{i} of {}: unprotect fails ({e}) although {room} bytes follow the header", hex(b)),
                                    replay(),
                                );
                                return outcome;
                            }
                            ctx.sum.count("unprotect_rejected_short", 1);
                        }
                        Unprotected::DecryptError { pn, why } => {
                            let reserved = if first & 0x80 != 0 {
                                first & 0x0c
                            } else {
                                first & 0x18
                            };
                            if reserved == 0 {
                                ctx.violation(
                                    PROPERTY,
                                    "layout:decrypt-rejects-valid".into(),
                                    format!("packet #{i} of {}: null-cipher decrypt fails ({why}) with reserved bits clear", hex(b)),
                                    replay(),
                                );
                                return outcome;
                            }
                            let _ = pn;
                            ctx.sum.count("reserved_bits_rejected", 1);
                        }
                        Unprotected::Ok {
                            pn,
                            payload,
                            header_len,
                        } => {
                            if room < 4 {
                                ctx.violation(
                                    PROPERTY,
                                    "layout:unprotect-accepts-short".into(),
                                    format!(
                                        "packet #{i} of {}: only {room} bytes follow the header",
                                        hex(b)
                                    ),
                                    replay(),
                                );
                                return outcome;
                            }
                            let pn_len = (first & 0x03) as usize + 1;
                            let mut t = 0u64;
                            for x in &b[pn_offset..pn_offset + pn_len] {
                                t = t << 8 | *x as u64;
                            }
                            let want_pn = w::pn_decode(Some(h.largest), t, 8 * pn_len as u32);
                            if want_pn > w::VARINT_MAX {
                                // candidate outside the packet-number space: A.3 leaves it open
                                ctx.sum.count("pn_candidate_out_of_range", 1);
                            } else if *pn != want_pn {
                                ctx.violation(
                                    PROPERTY,
                                    "layout:packet-number-mismatch".into(),
                                    format!(
                                        "packet #{i} of {}: s2n expands the {pn_len}-byte packet number {t:#x} against largest {} to {pn}, RFC 9000 A.3 gives {want_pn}",
                                        hex(b),
                                        h.largest
                                    ),
                                    replay(),
                                );
                                return outcome;
                            }
                            let want_payload = &b[pn_offset + pn_len..r.end];
                            if *header_len != pn_offset - r.start + pn_len
                                || payload[..] != *want_payload
                            {
                                ctx.violation(
                                    PROPERTY,
                                    "layout:payload-offset-mismatch".into(),
                                    format!(
                                        "packet #{i} of {}: s2n header+pn length {header_len}, reference {}",
                                        hex(b),
                                        pn_offset - r.start + pn_len
                                    ),
                                    replay(),
                                );
                                return outcome;
                            }
                            ctx.sum.count("packets_opened", 1);
                            ctx.sum.set("pn_len_decoded", format!("{pn_len}"));
                            let reserved = if first & 0x80 != 0 {
                                first & 0x0c
                            } else {
                                first & 0x18
                            };
                            if reserved != 0 {
                                // RFC 9000 17.2/17.3.1 make this a PROTOCOL_VIOLATION after packet
                                // protection is removed; which layer raises it is not a codec matter
                                ctx.sum.count(
                                    &format!("observed:reserved-bits-accepted:{:?}", g.kind),
                                    1,
                                );
                            }
                        }
                    }
                }
            }
            (None, Some(r)) => {
                outcome.rejected = true;
                if got.error.is_none() {
                    ctx.violation(
                        PROPERTY,
                        "layout:header-length-mismatch".into(),
                        format!(
                            "{}: s2n finished after {i} packets, the reference sees more",
                            hex(b)
                        ),
                        replay(),
                    );
                    return outcome;
                }
                if let Some(why) = r.notes.soft {
                    outcome.soft = true;
                    ctx.sum.count(&format!("soft:{why}:s2n-rejects"), 1);
                } else {
                    ctx.violation(
                        PROPERTY,
                        "layout:s2n-rejects-valid:packet".into(),
                        format!(
                            "packet #{i} of {}: s2n fails with {:?}, the reference parser reads {:?}",
                            hex(b),
                            got.error,
                            r.header
                        ),
                        replay(),
                    );
                }
                return outcome;
            }
            (Some(g), None) => {
                ctx.violation(
                    PROPERTY,
                    "layout:s2n-accepts-invalid:packet".into(),
                    format!(
                        "packet #{i} of {}: s2n decodes {:?}, the reference parser says {:?}",
                        hex(b),
                        g,
                        want_err
                    ),
                    replay(),
                );
                return outcome;
            }
            (None, None) => {
                match (&got.error, &want_err) {
                    (Some(_), Some(_)) => {
                        outcome.rejected = true;
                        ctx.sum.count("datagrams_rejected", 1);
                    }
                    (None, None) => ctx.sum.count("datagrams_accepted", 1),
                    (Some(e), None) => ctx.violation(
                        PROPERTY,
                        "layout:s2n-rejects-valid:packet".into(),
                        format!("{}: s2n fails with {e} where the reference is done", hex(b)),
                        replay(),
                    ),
                    (None, Some(e)) => ctx.violation(
                        PROPERTY,
                        "layout:s2n-accepts-invalid:packet".into(),
                        format!("{}: s2n is done where the reference says {e:?}", hex(b)),
                        replay(),
                    ),
                }
                return outcome;
            }
        }
    }
    outcome
}

/// s2n's packet encoders against the reference header parser.
pub fn check_packet_encoder(ctx: &mut Ctx, s: &s2n::PacketSpec) {
    let replay = || {
        json!({"check": "codec", "kind": "packet-encode",
        "spec": {"kind": format!("{:?}", s.kind), "version": s.version, "dcid": hex(&s.dcid),
                 "scid": hex(&s.scid), "token": hex(&s.token), "pn": s.pn,
                 "largest_acked": s.largest_acked, "payload": hex(&s.payload), "tag": s.tag,
                 "spin": s.spin, "key_phase": s.key_phase, "capacity": s.capacity}})
    };
    let bytes = match s2n::encode_packet(s) {
        Ok(s2n::EncodedPacket::Ok(b)) => b,
        Ok(s2n::EncodedPacket::Declined(why)) => {
            ctx.sum.count(&format!("packet_encoder_declined:{why}"), 1);
            return;
        }
        Err(p) => {
            panic_violation(ctx, "packet-encode", &p, replay());
            return;
        }
    };
    ctx.sum.count("packets_encoded", 1);
    ctx.sum.set("packet_types_encoded", format!("{:?}", s.kind));
    let mut notes = w::HeaderNotes::default();
    let parsed = w::header_ex(&bytes, s.dcid.len(), &mut notes);
    ctx.verbose(|| {
        format!(
            "encoded {:?} -> {}\n  ref: {:?} {:?}",
            s,
            hex(&bytes),
            parsed,
            notes
        )
    });
    let fail = |ctx: &mut Ctx, what: &str, detail: String| {
        ctx.violation(
            PROPERTY,
            format!("layout:packet-encoder:{what}"),
            format!("{:?} encoded as {}: {detail}", s.kind, hex(&bytes)),
            replay(),
        );
    };
    let parsed = match parsed {
        Ok(p) => p,
        Err(e) => {
            fail(ctx, "unparseable", format!("reference parser says {e:?}"));
            return;
        }
    };
    match (&parsed, &s.kind) {
        (Header::Short { dcid, packet_len }, PacketKind::Short) => {
            if dcid != &s.dcid || *packet_len != bytes.len() {
                return fail(ctx, "short-fields", format!("{parsed:?}"));
            }
            let first = bytes[0];
            if first & 0x40 == 0
                || (first & 0x20 != 0) != s.spin
                || (first & 0x04 != 0) != s.key_phase
                || first & 0x18 != 0
            {
                return fail(ctx, "short-first-byte", format!("first byte {first:#04x}"));
            }
            check_encoded_pn(ctx, s, &bytes, 1 + dcid.len(), bytes.len(), &fail);
        }
        (
            Header::VersionNegotiation {
                dcid,
                scid,
                versions,
            },
            PacketKind::VersionNegotiation,
        ) => {
            let want: Vec<u32> = s
                .payload
                .chunks_exact(4)
                .map(|v| u32::from_be_bytes([v[0], v[1], v[2], v[3]]))
                .collect();
            if dcid != &s.dcid || scid != &s.scid || versions != &want || bytes[0] & 0x80 == 0 {
                fail(ctx, "vn-fields", format!("{parsed:?}"));
            }
        }
        (
            Header::Long {
                ty,
                version,
                dcid,
                scid,
                token,
                pn_offset,
                packet_len,
            },
            kind,
        ) if long_kind(*ty) == *kind => {
            if *version != s.version || dcid != &s.dcid || scid != &s.scid {
                return fail(ctx, "long-fields", format!("{parsed:?}"));
            }
            if *kind == PacketKind::Retry {
                let mut want = s.token.clone();
                let mut tag = [0u8; 16];
                let n = s.payload.len().min(16);
                tag[..n].copy_from_slice(&s.payload[..n]);
                want.extend_from_slice(&tag);
                if token != &want || bytes[0] != s.tag {
                    fail(ctx, "retry-fields", format!("{parsed:?}"));
                }
                return;
            }
            if *kind == PacketKind::Initial && token != &s.token {
                return fail(ctx, "initial-token", format!("{parsed:?}"));
            }
            if *packet_len != bytes.len() {
                return fail(
                    ctx,
                    "long-length",
                    format!("Length field covers {packet_len} of {} bytes", bytes.len()),
                );
            }
            if bytes[0] & 0x40 == 0 || bytes[0] & 0x0c != 0 {
                return fail(
                    ctx,
                    "long-first-byte",
                    format!("first byte {:#04x}", bytes[0]),
                );
            }
            // the Length varint is reserved before the payload is known and patched afterwards:
            // RFC 9000 section 16 allows the longer form, count it
            let mut c = w::Cur::new(&bytes[..*pn_offset]);
            c.pos = 7 + dcid.len() + scid.len();
            if *kind == PacketKind::Initial {
                let _ = c.take_vi_len();
            }
            c.non_minimal = false;
            let _ = c.vi();
            if c.non_minimal {
                ctx.sum.count("observed:long-header-length-non-minimal", 1);
            }
            check_encoded_pn(ctx, s, &bytes, *pn_offset, *packet_len, &fail);
        }
        _ => fail(ctx, "kind", format!("{parsed:?}")),
    }
    // and back through the s2n decoder
    let h = HeaderInput {
        bytes,
        short_dcid_len: s.dcid.len(),
        largest: s.largest_acked,
        shape: "encoded",
    };
    let o = check_datagram(ctx, &h);
    if o.accepted != 1 && notes.soft.is_none() {
        ctx.violation(
            PROPERTY,
            "roundtrip:packet".into(),
            format!(
                "{:?}: the s2n decoder does not accept what the s2n encoder wrote: {}",
                s.kind,
                hex(&h.bytes)
            ),
            replay(),
        );
    }
}

fn check_encoded_pn(
    ctx: &mut Ctx,
    s: &s2n::PacketSpec,
    bytes: &[u8],
    pn_offset: usize,
    end: usize,
    fail: &dyn Fn(&mut Ctx, &str, String),
) {
    let pn_len = (bytes[0] & 3) as usize + 1;
    let min = w::pn_min_bytes(s.pn, Some(s.largest_acked)) as usize;
    if pn_len < min {
        return fail(
            ctx,
            "pn-too-short",
            format!("{pn_len} byte packet number, RFC 9000 A.2 needs {min}"),
        );
    }
    let mut t = 0u64;
    for x in &bytes[pn_offset..pn_offset + pn_len] {
        t = t << 8 | *x as u64;
    }
    let mask = (1u64 << (8 * pn_len)) - 1;
    if t != s.pn & mask {
        return fail(
            ctx,
            "pn-bytes",
            format!("packet number bytes {t:#x}, expected {:#x}", s.pn & mask),
        );
    }
    if bytes[pn_offset + pn_len..end] != s.payload[..] {
        return fail(
            ctx,
            "payload",
            "payload is not where RFC 9000 section 17 puts it".into(),
        );
    }
}

// ---------------------------------------------------------------------------------------
// transport parameters: totality + round trip only (the accept/reject table is `--check tp`)

/// ids, lengths and the values of the integer-valued RFC 9000 parameters use the shortest varint
pub fn tp_block_is_shortest_form(block: &[u8]) -> bool {
    let mut c = w::Cur::new(block);
    while !c.is_empty() {
        let Ok(id) = c.vi() else { return false };
        let Ok(val) = c.take_vi_len() else {
            return false;
        };
        let integer = matches!(id, 0x01 | 0x03..=0x0b | 0x0e | 0x20);
        if integer
            && !matches!(w::varint(val), Ok((x, l)) if l == val.len() && l == w::varint_len(x))
        {
            return false;
        }
    }
    !c.non_minimal
}

pub fn check_tp_bytes(ctx: &mut Ctx, b: &[u8], role: w::tp::Role) -> bool {
    let replay = || {
        json!({"check": "codec", "kind": "tp", "hex": hex(b),
        "role": if role == w::tp::Role::Client { "client" } else { "server" }})
    };
    match s2n::tp_decode(b, role) {
        Err(p) => {
            panic_violation(ctx, "tp-decode", &p, replay());
            false
        }
        Ok(Err(_)) => {
            ctx.sum.count("tp_rejected", 1);
            false
        }
        Ok(Ok(v)) => {
            ctx.sum.count("tp_accepted", 1);
            if v.announced != v.reencoded.len() {
                ctx.violation(
                    PROPERTY,
                    "roundtrip:size:transport-parameters".into(),
                    format!(
                        "{}: encoding_size()={} but {} bytes written",
                        hex(b),
                        v.announced,
                        v.reencoded.len()
                    ),
                    replay(),
                );
            } else if !v.stable {
                ctx.violation(
                    PROPERTY,
                    "roundtrip:value:transport-parameters".into(),
                    format!(
                        "{}: decode(encode(decode(b))) differs from decode(b); re-encoded {}",
                        hex(b),
                        hex(&v.reencoded)
                    ),
                    replay(),
                );
            } else if !tp_block_is_shortest_form(&v.reencoded) {
                ctx.violation(
                    PROPERTY,
                    "encoder:non-minimal-varint:transport-parameters".into(),
                    format!(
                        "{}: re-encoded block {} is malformed or uses non-minimal varints",
                        hex(b),
                        hex(&v.reencoded)
                    ),
                    replay(),
                );
            }
            true
        }
    }
}

// ---------------------------------------------------------------------------------------
// the input mix

const CLASSES: &[&str] = &[
    "varint-bytes",
    "varint-value",
    "frames-random",
    "frame-valid",
    "frame-valid-nonminimal",
    "frame-spiced",
    "frame-mutated",
    "frame-sequence",
    "frame-sequence-mutated",
    "frame-value",
    "datagram",
    "datagram-mutated",
    "packet-encode",
    "tp-random",
];

fn sig(ctx: &mut Ctx, class: usize, a: u64, b: u64, c: u64, trivial: bool) {
    if trivial {
        ctx.sum.trivial += 1;
    } else {
        ctx.sum
            .signatures
            .insert(mix(mix(mix(class as u64 + 1, a), b), c));
    }
}

fn trace_sig(t: &Trace) -> u64 {
    // which boundary was used (lowest one) / non-minimal / spice
    let edge = if t.edges == 0 {
        63
    } else {
        t.edges.trailing_zeros() as u64
    };
    edge | (t.non_minimal as u64) << 8 | (t.spice.map(vq_util::hash_str).unwrap_or(0) << 16)
}

fn count_trace(ctx: &mut Ctx, t: &Trace) {
    let mut e = t.edges;
    while e != 0 {
        let i = e.trailing_zeros() as usize;
        ctx.sum.count(&format!("boundary:{}", gen::EDGES[i]), 1);
        e &= e - 1;
    }
    if t.non_minimal {
        ctx.sum.count("boundary:non-minimal-varint-field", 1);
    }
    if let Some(s) = t.spice {
        ctx.sum.count(&format!("spice:{s}"), 1);
    }
}

fn gen_spec(rng: &mut Rng, max_data: usize) -> s2n::PacketSpec {
    let kind = match rng.below(6) {
        0 => PacketKind::Initial,
        1 => PacketKind::Handshake,
        2 => PacketKind::ZeroRtt,
        3 => PacketKind::Short,
        4 => PacketKind::VersionNegotiation,
        _ => PacketKind::Retry,
    };
    let largest_acked = match rng.below(4) {
        0 => 0,
        1 => rng.next() >> 2,
        _ => rng.below(1 << 24),
    };
    let dist = match rng.below(8) {
        0 => 1,
        1 => 127,
        2 => 128,
        3 => (1 << 15) - 1,
        4 => 1 << 15,
        5 => (1 << 23) + rng.below(2),
        6 => (1 << 31) - 1 - rng.below(2),
        _ => rng.range(1, 1 << 20),
    };
    let pn = (largest_acked + dist).min(w::VARINT_MAX);
    let cid = |rng: &mut Rng| {
        let n = *rng.pick(&[0usize, 1, 4, 8, 16, 20]);
        let mut c = vec![0u8; n];
        rng.fill(&mut c);
        c
    };
    let dcid = cid(rng);
    let scid = cid(rng);
    let mut token = vec![0u8; *rng.pick(&[0usize, 1, 16, 63, 64]).min(&max_data)];
    rng.fill(&mut token);
    if kind == PacketKind::Retry && token.is_empty() {
        token.push(7);
    }
    let mut payload = vec![
        0u8;
        if kind == PacketKind::VersionNegotiation {
            4 * rng.range(1, 4) as usize
        } else {
            rng.range(20, 20 + max_data.min(60) as u64) as usize
        }
    ];
    rng.fill(&mut payload);
    let tag = match kind {
        PacketKind::Retry => 0xf0 | rng.below(16) as u8,
        _ => rng.below(128) as u8,
    };
    s2n::PacketSpec {
        kind,
        version: *rng.pick(&[1u32, 0xff00_001d, 0x0a0a_0a0a]),
        dcid,
        scid,
        token,
        pn,
        largest_acked,
        payload,
        tag,
        spin: rng.chance(1, 2),
        key_phase: rng.chance(1, 2),
        capacity: *rng.pick(&[300usize, 1200, 1500, 20000]),
    }
}

/// Run input number `index` of shard `seed`.
pub fn one(ctx: &mut Ctx, seed: u64, index: u64) {
    let mut rng = Rng::new(mix(seed, index));
    let max_data = if ctx.miri { 40 } else { 140 };
    // class weights
    let class = match rng.below(100) {
        0..=5 => 0,
        6..=9 => 1,
        10..=21 => 2,
        22..=31 => 3,
        32..=37 => 4,
        38..=42 => 5,
        43..=57 => 6,
        58..=65 => 7,
        66..=73 => 8,
        74..=79 => 9,
        80..=86 => 10,
        87..=92 => 11,
        93..=95 => 12,
        _ => 13,
    };
    ctx.set_current(CLASSES[class]);
    ctx.sum.evaluations += 1;
    ctx.sum.count(&format!("inputs:{}", CLASSES[class]), 1);
    match class {
        0 => {
            let n = rng.range(0, 9) as usize;
            let mut b = vec![0u8; n];
            rng.fill(&mut b);
            if n > 0 && rng.chance(1, 2) {
                // boundary patterns: all-ones / all-zeros value bits in each length class
                let tagbits = rng.below(4) as u8;
                let fill = *rng.pick(&[0u8, 0xff]);
                for x in b.iter_mut() {
                    *x = fill;
                }
                b[0] = tagbits << 6 | (fill & 0x3f);
            }
            let r = check_varint_bytes(ctx, &b);
            sig(
                ctx,
                class,
                b.first().map(|x| (*x >> 6) as u64).unwrap_or(4),
                r,
                n as u64,
                n == 0,
            );
        }
        1 => {
            let v = match rng.below(4) {
                0 => *rng.pick(gen::EDGES),
                1 => w::VARINT_MAX + 1 + rng.below(3),
                2 => rng.next(),
                _ => rng.next() >> rng.range(2, 63),
            };
            check_varint_value(ctx, v);
            sig(
                ctx,
                class,
                64 - v.leading_zeros() as u64,
                gen::edge_index(v).map(|i| i as u64 + 1).unwrap_or(0),
                0,
                false,
            );
        }
        2 => {
            let b = gen::random_frame_bytes(&mut rng, if ctx.miri { 40 } else { 96 });
            let o = check_frames(ctx, &b, CLASSES[class]);
            sig(
                ctx,
                class,
                b.first().copied().unwrap_or(0) as u64,
                o.accepted.min(3) as u64,
                o.rejected as u64 | (o.soft as u64) << 1,
                b.is_empty(),
            );
        }
        3..=6 => {
            let mut g = Gen::new(&mut rng, max_data);
            let kind = g.rng.below(Gen::KINDS as u64) as usize;
            let mut f = g.frame(kind, true);
            if class == 5 && !g.spice(&mut f) {
                g.trace.spice = Some("none-for-this-type");
            }
            let mut b = Vec::new();
            let nm = match class {
                4 => 50,
                6 => 10,
                _ => 0,
            };
            g.encode(&f, &mut b, nm);
            if class == 4 && g.rng.chance(1, 4) && !matches!(f, Frame::Padding { .. }) {
                // non-minimal frame type
                let ty = w::frame_type(&f);
                let tl = w::varint_len(ty);
                let mut nb = Vec::new();
                let l = match tl {
                    1 => *g.rng.pick(&[2usize, 4, 8]),
                    2 => *g.rng.pick(&[4usize, 8]),
                    _ => 8,
                };
                w::put_varint_len(&mut nb, ty, l);
                nb.extend_from_slice(&b[tl..]);
                b = nb;
                g.trace.spice = Some("non-minimal-frame-type");
            }
            let trace = g.trace.clone();
            let mut mutation = 0;
            if class == 6 {
                mutation = 1 + gen::mutate(&mut rng, &mut b) as u64;
                ctx.sum.count(
                    &format!("mutation:{}", gen::MUTATIONS[mutation as usize - 1]),
                    1,
                );
            }
            count_trace(ctx, &trace);
            let o = check_frames(ctx, &b, CLASSES[class]);
            if class == 3 && (o.rejected || o.accepted == 0) && !ctx.sum.violations.is_empty() {
                // already reported
            }
            sig(
                ctx,
                class,
                kind as u64 | mutation << 8,
                trace_sig(&trace),
                o.accepted.min(3) as u64 | (o.rejected as u64) << 2 | (o.soft as u64) << 3,
                false,
            );
        }
        7 | 8 => {
            let mut g = Gen::new(&mut rng, max_data.min(48));
            let n = g.rng.range(2, 6) as usize;
            let mut b = Vec::new();
            let mut kinds = 0u64;
            for i in 0..n {
                let kind = g.rng.below(Gen::KINDS as u64) as usize;
                kinds = mix(kinds, kind as u64);
                let f = g.frame(kind, i + 1 == n);
                g.encode(&f, &mut b, 5);
            }
            let trace = g.trace.clone();
            let mut mutation = 0;
            if class == 8 {
                mutation = 1 + gen::mutate(&mut rng, &mut b) as u64;
                ctx.sum.count(
                    &format!("mutation:{}", gen::MUTATIONS[mutation as usize - 1]),
                    1,
                );
            }
            count_trace(ctx, &trace);
            let o = check_frames(ctx, &b, CLASSES[class]);
            let _ = kinds;
            sig(
                ctx,
                class,
                o.first_type | mutation << 32,
                n as u64,
                o.accepted.min(7) as u64 | (o.rejected as u64) << 3,
                false,
            );
        }
        9 => {
            let mut g = Gen::new(&mut rng, max_data);
            let kind = g.rng.below(Gen::KINDS as u64) as usize;
            let last = g.rng.chance(1, 2);
            let f = g.frame(kind, last);
            let trace = g.trace.clone();
            count_trace(ctx, &trace);
            check_frame_value(ctx, &f);
            sig(ctx, class, kind as u64, trace_sig(&trace), 0, false);
        }
        10 | 11 => {
            let mut h = gen::header_input(&mut rng);
            let mut mutation = 0;
            if class == 11 {
                mutation = 1 + gen::mutate(&mut rng, &mut h.bytes) as u64;
            }
            ctx.sum.count(&format!("datagram_shape:{}", h.shape), 1);
            let o = check_datagram(ctx, &h);
            sig(
                ctx,
                class,
                vq_util::hash_str(h.shape) & 0xff | mutation << 8 | (o.first as u64) << 16,
                0,
                o.accepted.min(3) as u64 | (o.rejected as u64) << 2 | (o.soft as u64) << 3,
                h.bytes.is_empty(),
            );
        }
        12 => {
            let s = gen_spec(&mut rng, max_data);
            check_packet_encoder(ctx, &s);
            sig(
                ctx,
                class,
                s.kind.clone() as u64,
                w::pn_min_bytes(s.pn, Some(s.largest_acked)) as u64,
                (s.dcid.len() as u64) << 8 | s.scid.len() as u64,
                false,
            );
        }
        _ => {
            // half uniformly random, half grammar-generated blocks (optionally mutated)
            let (b, role, shape) = if rng.chance(1, 2) {
                let n = rng.range(0, if ctx.miri { 24 } else { 64 }) as usize;
                let mut b = vec![0u8; n];
                rng.fill(&mut b);
                if n >= 2 && rng.chance(3, 4) {
                    // make the first item look like a known parameter with a fitting length
                    b[0] = rng.below(0x11) as u8;
                    b[1] = rng.below((n - 1) as u64) as u8 & 0x3f;
                }
                let role = if rng.chance(1, 2) {
                    w::tp::Role::Client
                } else {
                    w::tp::Role::Server
                };
                (b, role, 0u64)
            } else {
                let mut blk = crate::tp::gen_block(&mut rng);
                let mut shape = 1;
                if rng.chance(1, 3) {
                    shape = 2 + gen::mutate(&mut rng, &mut blk.bytes) as u64;
                }
                (blk.bytes, blk.role, shape)
            };
            let ok = check_tp_bytes(ctx, &b, role);
            sig(
                ctx,
                class,
                b.first().copied().unwrap_or(0xff).min(0x21) as u64 | shape << 8,
                ok as u64,
                (role == w::tp::Role::Client) as u64,
                b.is_empty(),
            );
        }
    }
}

/// Re-run a recorded case verbosely.
pub fn replay(ctx: &mut Ctx, r: &vq_util::Value) -> Result<(), String> {
    let kind = r["kind"].as_str().ok_or("replay: no kind")?;
    let bytes = || -> Result<Vec<u8>, String> {
        let h = r["hex"].as_str().ok_or("replay: no hex")?;
        (0..h.len() / 2)
            .map(|i| u8::from_str_radix(&h[2 * i..2 * i + 2], 16).map_err(|e| e.to_string()))
            .collect()
    };
    ctx.sum.evaluations += 1;
    match kind {
        "varint" => {
            check_varint_bytes(ctx, &bytes()?);
        }
        "varint-value" => check_varint_value(ctx, r["value"].as_u64().ok_or("replay: no value")?),
        "frames" => {
            check_frames(ctx, &bytes()?, "replay");
        }
        "frame-value" => {
            let b = bytes()?;
            let mut c = w::Cur::new(&b);
            let f = w::frame_ex(&mut c, &mut w::Notes::default())
                .map_err(|e| format!("replay: reference cannot parse the frame: {e:?}"))?;
            check_frame_value(ctx, &f);
        }
        "datagram" => {
            check_datagram(
                ctx,
                &HeaderInput {
                    bytes: bytes()?,
                    short_dcid_len: r["short_dcid_len"].as_u64().unwrap_or(0) as usize,
                    largest: r["largest"].as_u64().unwrap_or(0),
                    shape: "replay",
                },
            );
        }
        "packet-encode" => {
            let s = &r["spec"];
            let hx = |k: &str| -> Vec<u8> {
                let h = s[k].as_str().unwrap_or("");
                (0..h.len() / 2)
                    .filter_map(|i| u8::from_str_radix(&h[2 * i..2 * i + 2], 16).ok())
                    .collect()
            };
            let spec = s2n::PacketSpec {
                kind: match s["kind"].as_str().unwrap_or("") {
                    "Short" => PacketKind::Short,
                    "VersionNegotiation" => PacketKind::VersionNegotiation,
                    "Initial" => PacketKind::Initial,
                    "ZeroRtt" => PacketKind::ZeroRtt,
                    "Handshake" => PacketKind::Handshake,
                    _ => PacketKind::Retry,
                },
                version: s["version"].as_u64().unwrap_or(1) as u32,
                dcid: hx("dcid"),
                scid: hx("scid"),
                token: hx("token"),
                pn: s["pn"].as_u64().unwrap_or(0),
                largest_acked: s["largest_acked"].as_u64().unwrap_or(0),
                payload: hx("payload"),
                tag: s["tag"].as_u64().unwrap_or(0) as u8,
                spin: s["spin"].as_bool().unwrap_or(false),
                key_phase: s["key_phase"].as_bool().unwrap_or(false),
                capacity: s["capacity"].as_u64().unwrap_or(1500) as usize,
            };
            check_packet_encoder(ctx, &spec);
        }
        "tp" => {
            let role = if r["role"].as_str() == Some("client") {
                w::tp::Role::Client
            } else {
                w::tp::Role::Server
            };
            check_tp_bytes(ctx, &bytes()?, role);
        }
        other => return Err(format!("replay: unknown kind {other}")),
    }
    Ok(())
}
