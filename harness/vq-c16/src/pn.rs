//! `packet::number::Map<V>` against a `BTreeMap`, `packet::number::SlidingWindow` against the set
//! of inserted packet numbers plus the "at most 128 below the highest" window rule.

use crate::{fail, sets::Dom, Cx, Fail, Op, View};
use s2n_quic_core::packet::number::{Map, PacketNumber, PacketNumberRange, SlidingWindow, SlidingWindowError};
use std::collections::{BTreeMap, BTreeSet};

const PN_MAX: u64 = (1 << 62) - 1;
const WINDOW: u64 = 128;

fn pn(v: u64) -> PacketNumber {
    PacketNumber::of(v)
}

pub fn run_map(src: &mut dyn FnMut(&View) -> Option<Op>, cx: &mut Cx) -> Result<(), Fail> {
    // boxed values: a slot dropped twice or leaked is visible to Miri / ASan
    let mut lib: Map<Box<u64>> = Map::default();
    let mut m: BTreeMap<u64, u64> = BTreeMap::new();
    let mut id = 0u64;
    loop {
        let view = View { a: m.keys().next().copied().unwrap_or(0), b: m.keys().last().copied().unwrap_or(0), c: PN_MAX, d: None, n: m.len(), prev: None };
        let Some(op) = src(&view) else { return Ok(()) };
        cx.begin(&op);
        id += 1;
        let (a, b) = (op.a, op.b);
        match op.k {
            // preconditions of the structure (monotonic insertion) are the generator's job
            "ins" if m.is_empty() || a > view.b => {
                lib!(lib.insert(pn(a), Box::new(id)));
                m.insert(a, id);
                cx.hit(if a > view.b + 8 { "map.insert_jump" } else { "map.insert" });
            }
            "upd" if m.is_empty() || a >= view.a => {
                lib!(lib.insert_or_update(pn(a), Box::new(id), |v| **v = id));
                cx.hit(if m.insert(a, id).is_some() { "map.update_existing" } else { "map.insert_or_update_new" });
            }
            "ins" | "upd" => cx.hit("map.skipped_precondition"),
            "rem" => {
                let got = lib!(lib.remove(pn(a))).map(|v| *v);
                let want = m.remove(&a);
                if got != want {
                    return fail("map.remove", format!("remove({a}) = {got:?}, model {want:?}"));
                }
                cx.hit(match want { None => "map.remove_missing", _ if a == view.a && a == view.b => "map.remove_last_entry", _ if a == view.a => "map.remove_front", _ if a == view.b => "map.remove_back", _ => "map.remove_middle" });
            }
            "remr" => {
                // c = how many items are pulled before the iterator is dropped (drop must finish the job)
                let got: Vec<(u64, u64)> = lib!(lib.remove_range(PacketNumberRange::new(pn(a), pn(b))).take(op.c as usize).map(|(p, v)| (p.as_u64(), *v)).collect());
                let want: Vec<(u64, u64)> = m.range(a..=b).map(|(k, v)| (*k, *v)).collect();
                if got[..] != want[..want.len().min(op.c as usize)] {
                    return fail("map.remove_range", format!("remove_range({a}..={b}).take({}) = {got:?}, model {want:?}", op.c));
                }
                m.retain(|k, _| *k < a || *k > b);
                cx.hit(match () { _ if want.is_empty() => "map.range_misses", _ if m.is_empty() => "map.range_all", _ if a <= view.a => "map.range_front", _ if b >= view.b => "map.range_back", _ => "map.range_middle" });
                if (op.c as usize) < want.len() {
                    cx.hit("map.range_iterator_dropped_early");
                }
            }
            "clear" => {
                lib!(lib.clear());
                m.clear();
                cx.hit("map.clear");
            }
            other => return fail("harness.bad-op", format!("map: unknown op {other}")),
        }
        let got: Vec<(u64, u64)> = lib!(lib.iter().map(|(p, v)| (p.as_u64(), **v)).collect());
        let want: Vec<(u64, u64)> = m.iter().map(|(k, v)| (*k, *v)).collect();
        if got != want {
            return fail("map.content", format!("iter() = {got:?}, model {want:?}"));
        }
        let got_mut: Vec<u64> = lib!(lib.iter_mut().map(|(p, _)| p.as_u64()).collect());
        if got_mut != want.iter().map(|x| x.0).collect::<Vec<_>>() || lib!(lib.is_empty()) != m.is_empty() {
            return fail("map.query", format!("iter_mut() keys {got_mut:?} / is_empty() {} disagree with model {want:?}", lib.is_empty()));
        }
        if let (Some(lo), Some(hi)) = (m.keys().next(), m.keys().last()) {
            let r = lib!(lib.get_range());
            if (r.start().as_u64(), r.end().as_u64()) != (*lo, *hi) {
                return fail("map.get_range", format!("get_range() = {:?}..={:?}, model {lo}..={hi}", r.start().as_u64(), r.end().as_u64()));
            }
        }
        for p in [a, b, a.saturating_sub(1), (a + 1).min(PN_MAX), view.a, view.b, (view.b + 1).min(PN_MAX)] {
            let got = lib!(lib.get(pn(p))).map(|v| **v);
            if got != m.get(&p).copied() {
                return fail("map.get", format!("get({p}) = {got:?}, model {:?}", m.get(&p)));
            }
        }
        cx.max("map.max_entries", m.len() as i64);
    }
}

pub fn gen_map(rng: &mut vq_util::Rng, v: &View, small: bool) -> Op {
    let inside = |rng: &mut vq_util::Rng| rng.range(v.a.saturating_sub(2), (v.b + 2).min(PN_MAX));
    if v.n == 0 {
        let start = *rng.pick(&[0u64, 1, 7, 1000, PN_MAX - 3000, PN_MAX - 10]);
        return Op::new(if rng.chance(1, 3) { "upd" } else { "ins" }, start, 0, 0);
    }
    let big = if small { 17 } else { rng.range(10, 600) };
    let step = *rng.pick(&[1u64, 1, 1, 1, 2, 3, 7, 8, 9, big]);
    match rng.below(100) {
        0..=39 => Op::new("ins", (v.b + step).min(PN_MAX), 0, 0),
        40..=51 => Op::new("upd", if rng.chance(1, 2) { inside(rng).max(v.a) } else { (v.b + step).min(PN_MAX) }, 0, 0),
        52..=71 => {
            let (x, y) = (inside(rng), inside(rng));
            Op::new("rem", *rng.pick(&[v.a, v.a, v.b, x, y]), 0, 0)
        }
        72..=97 => {
            let (x, y) = (inside(rng), inside(rng));
            let (x, y) = match rng.below(4) { 0 => (v.a.saturating_sub(1), x), 1 => (x, (v.b + 1).min(PN_MAX)), _ => (x.min(y), x.max(y)) };
            Op::new("remr", x, y.max(x), *rng.pick(&[u64::MAX, u64::MAX, 0, 1, 2]))
        }
        _ => Op::new("clear", 0, 0, 0),
    }
}

pub fn run_win(src: &mut dyn FnMut(&View) -> Option<Op>, cx: &mut Cx) -> Result<(), Fail> {
    let mut lib = SlidingWindow::default();
    let mut seen: BTreeSet<u64> = BTreeSet::new();
    let mut right: Option<u64> = None;
    use SlidingWindowError::*;
    loop {
        let view = View { a: right.unwrap_or(0), b: 0, c: PN_MAX, d: right, n: seen.len(), prev: None };
        let Some(op) = src(&view) else { return Ok(()) };
        cx.begin(&op);
        let p = op.a;
        // the rule: anything above the highest is new; more than 128 below it is too old; else ask the set
        let want = match right {
            None => Ok(()),
            Some(r) if p > r => Ok(()),
            Some(r) if r - p > WINDOW => Err(TooOld),
            Some(_) if seen.contains(&p) => Err(Duplicate),
            Some(_) => Ok(()),
        };
        if let Some(r) = right {
            cx.hit(match () { _ if p > r && p - r > WINDOW => "win.jump_clears_window", _ if p > r => "win.advance", _ if p == r => "win.right_edge", _ if r - p == WINDOW => "win.left_edge_in", _ if r - p == WINDOW + 1 => "win.left_edge_out", _ if r - p > WINDOW => "win.too_old", _ => "win.within" });
        }
        let got = match op.k {
            "chk" => lib!(lib.check(pn(p))),
            "ins" => lib!(lib.insert(pn(p))),
            "insev" => match lib!(lib.insert_with_evicted(pn(p)).map(|e| e.map(|x| x.as_u64()).collect::<BTreeSet<u64>>())) {
                Err(e) => Err(e),
                Ok(ev) => {
                    // evicted = never-received numbers of the old window that the new window no longer covers
                    let want_ev: BTreeSet<u64> = match right {
                        Some(r) if p > r => (r.saturating_sub(WINDOW)..r).filter(|x| !seen.contains(x) && p - x > WINDOW).collect(),
                        _ => BTreeSet::new(),
                    };
                    if ev != want_ev {
                        return fail("win.evicted", format!("insert_with_evicted({p}) with right edge {right:?} evicted {ev:?}, model {want_ev:?}"));
                    }
                    if !ev.is_empty() {
                        cx.hit("win.evicted_unseen");
                    }
                    Ok(())
                }
            },
            other => return fail("harness.bad-op", format!("win: unknown op {other}")),
        };
        if got != want {
            return fail(format!("win.{}:{}", op.k, match got { Ok(()) => "ok", Err(Duplicate) => "duplicate", Err(TooOld) => "too-old" }), format!("{}({p}) = {got:?}, model {want:?}; right edge {right:?}", op.k));
        }
        cx.hit(match want { Ok(()) => "win.new", Err(Duplicate) => "win.duplicate", Err(TooOld) => "win.rejected_too_old" });
        if op.k != "chk" && want.is_ok() {
            seen.insert(p);
            right = Some(right.map_or(p, |r| r.max(p)));
            let keep = right.unwrap().saturating_sub(WINDOW + 2);
            seen = seen.split_off(&keep); // older entries can never matter again
        }
        // every number around the window must now be judged like the model judges it
        if let Some(r) = right {
            for q in [r, r.saturating_sub(1), r.saturating_sub(WINDOW - 1), r.saturating_sub(WINDOW), r.saturating_sub(WINDOW + 1), p] {
                let w = if q == r || (q < r && r - q <= WINDOW && seen.contains(&q)) { Err(Duplicate) } else if q < r && r - q > WINDOW { Err(TooOld) } else { Ok(()) };
                let g = lib!(lib.check(pn(q)));
                if g != w {
                    return fail("win.check-after", format!("after {}({p}): check({q}) = {g:?}, model {w:?}; right edge {r}", op.k));
                }
            }
        }
    }
}

pub fn gen_win(rng: &mut vq_util::Rng, v: &View) -> Op {
    let r = v.a;
    let (r1, r2, far) = (rng.range(0, 140), rng.range(0, 140), rng.next() >> 3);
    let d = *rng.pick(&[0u64, 1, 1, 2, 3, 64, 126, 127, 128, 129, 130, 255, 256, 257, r1, r2]);
    let p = match (v.d, rng.below(100)) {
        (None, _) => *rng.pick(&[0u64, 1, 127, 128, 129, 5000, PN_MAX - 300]),
        (_, 0..=44) => r.saturating_add(d).min(PN_MAX),
        (_, 45..=92) => r.saturating_sub(d),
        (_, 93..=96) => r.saturating_add(*rng.pick(&[1u64 << 20, 1 << 40, far])).min(PN_MAX),
        _ => rng.range(0, PN_MAX),
    };
    Op::new(*rng.pick(&["ins", "ins", "ins", "insev", "insev", "chk"]), p, 0, 0)
}
