//! `buffer::Reassembler` against a paged byte map (position -> byte), a consumed offset and an
//! optional final size. The model never looks at slots; it only knows positions.

use crate::{fail, Cx, Fail, Op, View};
use bytes::BytesMut;
use s2n_quic_core::{
    buffer::{
        reader::{testing::Fallible, Incremental, Storage as _},
        writer::Storage as _,
        Error, Reader as _, Reassembler, Writer as _,
    },
    varint::VarInt,
};
use std::collections::BTreeMap;

pub const MAXV: u64 = (1 << 62) - 1;
const PG: u64 = 512;
/// above this many buffered bytes the O(n) content snapshot is only taken on rejections
const SNAPSHOT_MAX: u64 = 16384;

/// same bytes as `vq_util::prf_vec`, one `mix` per 8 positions (checked at start-up)
pub fn payload(key: u64, off: u64, len: usize) -> Vec<u8> {
    let mut v = vec![0u8; len];
    let (mut p, mut i) = (off, 0);
    while i < len {
        let w = vq_util::mix(key, p >> 3);
        let mut sh = p & 7;
        while sh < 8 && i < len {
            v[i] = (w >> (sh * 8)) as u8;
            i += 1;
            sh += 1;
            p += 1;
        }
    }
    v
}

/// documented allocation table of the reassembler; used for *classification only*
pub fn slot_size(off: u64) -> u64 {
    match off {
        o if o >= 1 << 20 => 65536,
        o if o >= 262144 => 32768,
        o if o >= 65536 => 16384,
        _ => 4096,
    }
}

#[derive(Default)]
pub struct Model {
    pages: BTreeMap<u64, Box<[Option<u8>; PG as usize]>>,
    pub consumed: u64,
    /// largest end offset of any accepted non-empty write / skip
    pub seen_data: u64,
    /// the same including empty writes
    pub seen_any: u64,
    pub fin: Option<u64>,
    contig: u64,
}

impl Model {
    /// first write of a position wins (all writers use the same PRF, so it cannot matter)
    fn put(&mut self, off: u64, data: &[u8]) {
        let end = off + data.len() as u64;
        let mut p = off.max(self.consumed);
        while p < end {
            let pg = self.pages.entry(p / PG).or_insert_with(|| Box::new([None; PG as usize]));
            let lo = p % PG;
            let n = (PG - lo).min(end - p);
            for j in 0..n {
                let s = &mut pg[(lo + j) as usize];
                if s.is_none() {
                    *s = Some(data[(p + j - off) as usize]);
                }
            }
            p += n;
        }
    }

    /// end of the contiguous run starting at `consumed`
    pub fn end(&mut self) -> u64 {
        let mut p = self.contig.max(self.consumed);
        'scan: while let Some(pg) = self.pages.get(&(p / PG)) {
            for j in (p % PG)..PG {
                if pg[j as usize].is_none() {
                    break 'scan;
                }
                p += 1;
            }
        }
        self.contig = p;
        p
    }

    fn advance(&mut self, to: u64) {
        self.consumed = to;
        self.pages = self.pages.split_off(&(to / PG));
        self.contig = self.contig.max(to);
    }

    /// first position in `got` (laid at `pos`) that differs from the map: (position, got, model)
    fn diff(&self, pos: u64, got: &[u8]) -> Option<(u64, u8, Option<u8>)> {
        let (mut p, end) = (pos, pos + got.len() as u64);
        while p < end {
            let n = (PG - p % PG).min(end - p);
            let pg = self.pages.get(&(p / PG));
            for q in p..p + n {
                let w = if q < self.consumed { None } else { pg.and_then(|pg| pg[(q % PG) as usize]) };
                if w != Some(got[(q - pos) as usize]) {
                    return Some((q, got[(q - pos) as usize], w));
                }
            }
            p += n;
        }
        None
    }

    /// the library handed out `got` as the next bytes of the stream
    fn take(&mut self, got: &[u8], how: &str) -> Result<(), Fail> {
        match self.diff(self.consumed, got) {
            Some((p, b, Some(w))) => return fail(format!("reasm.{how}.content"), format!("position {p}: library returned {b:#04x}, stream byte is {w:#04x} ({}-byte read at consumed={})", got.len(), self.consumed)),
            Some((p, _, None)) => return fail(format!("reasm.{how}.beyond-received"), format!("position {p} was handed out but was never received (read of {} bytes at consumed={})", got.len(), self.consumed)),
            None => {}
        }
        self.advance(self.consumed + got.len() as u64);
        Ok(())
    }

    /// (beyond max offset, contradicts final size, contradiction only under one reading)
    fn judge_write(&self, off: u64, len: u64, fin: bool) -> (bool, bool, bool) {
        let end = off + len;
        let oor = end > MAXV;
        let (inv, open) = match (fin, self.fin) {
            (true, Some(f)) => (end != f, false),
            (true, None) => (self.seen_data > end, self.seen_any > end),
            (false, Some(f)) => (end > f && len > 0, end > f),
            (false, None) => (false, false),
        };
        (oor, inv, open && !inv)
    }
}

fn class<E>(e: Error<E>) -> &'static str {
    match e {
        Error::OutOfRange => "oor",
        Error::InvalidFin => "fin",
        Error::ReaderError(_) => "reader",
    }
}

/// compare every observable of the library with the model
fn check_state(lib: &Reassembler, m: &mut Model, full: bool, cx: &mut Cx) -> Result<(), Fail> {
    let end = m.end();
    let avail = end - m.consumed;
    macro_rules! same {
        ($name:literal, $got:expr, $want:expr) => {{
            let (g, w) = (lib!($got), $want);
            if g != w {
                return fail(concat!("reasm.query.", $name), format!("{} = {:?}, model says {:?} (consumed={} contiguous_end={} fin={:?})", $name, g, w, m.consumed, end, m.fin));
            }
        }};
    }
    same!("consumed_len", lib.consumed_len(), m.consumed);
    same!("total_received_len", lib.total_received_len(), end);
    same!("final_size", lib.final_size(), m.fin);
    same!("len", lib.len() as u64, avail);
    same!("is_empty", lib.is_empty(), avail == 0);
    same!("is_writing_complete", lib.is_writing_complete(), m.fin == Some(end));
    same!("is_reading_complete", lib.is_reading_complete(), m.fin == Some(m.consumed));
    same!("current_offset", lib.current_offset().as_u64(), m.consumed);
    same!("buffered_len", lib.buffered_len() as u64, avail);
    same!("has_buffered_fin", lib.has_buffered_fin(), m.fin == Some(end));
    let (bytes, chunks) = lib!(lib.report());
    if bytes as u64 != avail || (chunks == 0) != (avail == 0) || chunks as u64 > avail {
        return fail("reasm.query.report", format!("report() = ({bytes},{chunks}), model has {avail} readable bytes"));
    }
    cx.max("reasm.max_chunks", chunks as i64);
    cx.max("reasm.max_buffered", avail as i64);
    if !full && avail > SNAPSHOT_MAX {
        cx.cnt("reasm.snapshot_skipped", 1);
        return Ok(());
    }
    let (mut p, mut n) = (m.consumed, 0);
    for chunk in lib!(lib.iter().collect::<Vec<_>>()) {
        n += 1;
        if let Some((q, b, w)) = m.diff(p, chunk) {
            return fail("reasm.snapshot.content", format!("iter(): position {q} holds {b:#04x}, model has {w:?}"));
        }
        p += chunk.len() as u64;
    }
    if p != end || n != chunks {
        return fail("reasm.snapshot.len", format!("iter() yields {} bytes in {n} chunks, model has {avail}, report() said {chunks} chunks", p - m.consumed));
    }
    cx.bytes += avail;
    Ok(())
}

/// overlap / edge classes of a write, relative to earlier accepted writes and the model
fn classify(m: &mut Model, prior: &[(u64, u64)], off: u64, len: u64, cx: &mut Cx) {
    let end = off + len;
    if len == 0 {
        cx.hit("w.empty");
        return;
    }
    let contig = m.end();
    if end <= m.consumed {
        cx.hit("ov.fully_consumed");
    } else if off < m.consumed {
        cx.hit("ov.trims_consumed_prefix");
    }
    cx.hit(if off == contig { "w.in_order" } else if off > contig { "w.gap" } else { "w.behind_frontier" });
    for &(s, e) in prior {
        cx.hit(match () {
            _ if (s, e) == (off, end) => "ov.exact_dup",
            _ if s <= off && end <= e => "ov.subset",
            _ if off <= s && e <= end => "ov.superset",
            _ if off < s && s < end => "ov.partial_left",
            _ if off < e && e < end => "ov.partial_right",
            _ if end == s || off == e => "ov.adjacent",
            _ => continue,
        });
    }
    let sz = slot_size(off);
    if off / sz != (end - 1) / sz {
        cx.hit("edge.across_slot");
    }
    if off % sz == 0 {
        cx.hit("edge.starts_on_slot");
    }
    if end % sz == 0 {
        cx.hit("edge.ends_on_slot");
    }
    if [65536u64, 262144, 1 << 20].iter().any(|e| off < *e && end > *e) {
        cx.hit("edge.across_alloc_size");
    }
    if end > MAXV - (1 << 20) {
        cx.hit("edge.near_varint_max");
    }
}

pub fn run(key: u64, src: &mut dyn FnMut(&View) -> Option<Op>, cx: &mut Cx) -> Result<(), Fail> {
    let mut lib = Reassembler::new();
    let mut m = Model::default();
    let mut prior: Vec<(u64, u64)> = Vec::new();
    let mut last = None;
    check_state(&lib, &mut m, true, cx)?;
    loop {
        let view = View { a: m.consumed, b: m.end(), c: m.seen_any, d: m.fin, n: prior.len(), prev: last };
        let Some(op) = src(&view) else { return Ok(()) };
        cx.begin(&op);
        let avail = view.b - view.a;
        let mut full = false;
        match op.k {
            "w" => {
                let (off, len, fin, via) = (op.a, op.b, op.c & 1 == 1, op.c >> 1);
                let data = payload(key, off, len as usize);
                let (oor, inv, open) = m.judge_write(off, len, fin);
                classify(&mut m, &prior, off, len, cx);
                let at = VarInt::new(off).expect("generator keeps offsets <= 2^62-1");
                let res = match via {
                    0 => lib!(if fin { lib.write_at_fin(at, &data) } else { lib.write_at(at, &data) }).map_err(class),
                    _ => {
                        let mut s: &[u8] = &data;
                        let mut inc = Incremental::new(at);
                        match lib!(inc.with_storage(&mut s, fin)) {
                            Err(e) => Err(class(e)),
                            Ok(mut r) if via == 1 => lib!(lib.read_from(&mut r)).map_err(class),
                            Ok(mut r) => {
                                let mut r = Fallible::new(&mut r).with_error(());
                                lib!(lib.write_reader(&mut r)).map_err(class)
                            }
                        }
                    }
                };
                cx.hit(["via.write_at", "via.reader", "via.failing_reader"][via.min(2) as usize]);
                let want = format!("{}{}{}", if oor { "oor " } else { "" }, if inv { "fin " } else { "" }, if open { "fin? " } else { "" });
                match res {
                    Ok(()) if via >= 2 => return fail("reasm.write.failing-reader-accepted", format!("write {off}+{len} from a reader that always fails returned Ok")),
                    Ok(()) if oor || inv => return fail(format!("reasm.write.accepted-invalid:{}", want.trim()), format!("write {off}+{len} fin={fin} must be rejected ({want}) but was accepted; final={:?} seen={}", m.fin, m.seen_data)),
                    Ok(()) => {
                        if open {
                            cx.hit("open.zero_len_offset.accepted");
                        }
                        m.put(off, &data);
                        m.seen_any = m.seen_any.max(off + len);
                        if len > 0 {
                            m.seen_data = m.seen_data.max(off + len);
                            let before = view.b;
                            if m.end() > before.max(off + len) && off <= before {
                                cx.hit("w.joins_gap");
                            }
                            if prior.len() < 32 {
                                prior.push((off, off + len));
                            }
                        }
                        if fin {
                            m.fin = Some(off + len);
                            cx.hit("w.fin");
                        }
                        last = Some((off, len));
                    }
                    Err(c) => {
                        let ok = (c == "oor" && oor) || (c == "fin" && (inv || open)) || (c == "reader" && via >= 2);
                        if !ok {
                            let sig = if oor || inv || open { "error-class" } else { "rejected-valid" };
                            return fail(format!("reasm.write.{sig}:{c}"), format!("write {off}+{len} fin={fin} returned {c}, model expects [{}]; final={:?} seen={}", want.trim(), m.fin, m.seen_data));
                        }
                        cx.hit(match c { "oor" => "reject.beyond_max_offset", "fin" if open => "open.zero_len_offset.rejected", "fin" => "reject.final_size", _ => "reject.reader_error" });
                        full = true; // a rejected write must leave the contents unchanged
                    }
                }
            }
            "pop" | "popw" | "rchunk" => {
                let wm = if op.k == "pop" { usize::MAX } else { op.a as usize };
                let got: Option<BytesMut> = match op.k {
                    "pop" => lib!(lib.pop()),
                    "popw" => lib!(lib.pop_watermarked(wm)),
                    _ => Some(BytesMut::from(&lib!(lib.read_chunk(wm)).unwrap()[..])).filter(|c| !c.is_empty()),
                };
                match got {
                    None if avail > 0 && wm > 0 => return fail("reasm.pop.none-with-data", format!("{} returned nothing although {avail} contiguous bytes are readable", op.k)),
                    None => cx.hit("read.empty"),
                    Some(c) => {
                        if c.is_empty() || c.len() > wm {
                            return fail("reasm.pop.watermark", format!("{} returned {} bytes for watermark {wm}", op.k, c.len()));
                        }
                        m.take(&c, "pop")?;
                        cx.hit(if c.len() as u64 == avail { "read.all" } else { "read.part" });
                        cx.bytes += c.len() as u64;
                    }
                }
            }
            "drain" => {
                let all: Vec<BytesMut> = lib!(lib.drain().collect());
                for c in &all {
                    m.take(c, "drain")?;
                }
                if m.consumed != view.b {
                    return fail("reasm.drain.len", format!("drain() stopped at {}, contiguous data ends at {}", m.consumed, view.b));
                }
                cx.hit("read.drain");
            }
            "copy" | "copyq" | "pcopy" => {
                let cap = op.a as usize;
                let mut buf = vec![0u8; cap];
                let got: Vec<u8> = match op.k {
                    "copy" => {
                        let mut dest = &mut buf[..];
                        lib!(lib.copy_into(&mut dest)).unwrap();
                        let n = cap - dest.len();
                        buf.truncate(n);
                        buf
                    }
                    "copyq" => {
                        let mut q: Vec<BytesMut> = Vec::new();
                        lib!(lib.copy_into(&mut q.with_write_limit(cap))).unwrap();
                        q.concat()
                    }
                    _ => {
                        let mut dest = &mut buf[..];
                        let tail = lib!(lib.partial_copy_into(&mut dest)).unwrap().to_vec();
                        let n = cap - dest.len();
                        if tail.len() > cap - n {
                            return fail("reasm.copy.tail-overflow", format!("partial_copy_into wrote {n} and returned a {}-byte chunk for a {cap}-byte destination", tail.len()));
                        }
                        buf.truncate(n);
                        buf.extend_from_slice(&tail);
                        buf
                    }
                };
                if got.len() as u64 != avail.min(cap as u64) {
                    return fail(format!("reasm.copy.len:{}", op.k), format!("{} into {cap} bytes produced {} bytes, {avail} were readable (must fill the destination or exhaust the data)", op.k, got.len()));
                }
                m.take(&got, "copy")?;
                cx.hit("read.copy");
                cx.bytes += got.len() as u64;
            }
            "skip" => {
                let new = m.consumed + op.a;
                let (oor, inv) = (op.a > 0 && new > MAXV, op.a > 0 && m.fin.is_some_and(|f| new > f));
                let res = lib!(lib.skip(VarInt::new(op.a).expect("generator keeps skips <= 2^62-1"))).map_err(class);
                match res {
                    Ok(()) if oor || inv => return fail("reasm.skip.accepted-invalid", format!("skip({}) from {} accepted; final={:?}", op.a, m.consumed, m.fin)),
                    Ok(()) => {
                        cx.hit(if new > view.b { "skip.past_data" } else if op.a == 0 { "skip.zero" } else { "skip.within_data" });
                        m.advance(new);
                        m.seen_data = m.seen_data.max(new);
                        m.seen_any = m.seen_any.max(new);
                    }
                    Err(c) if (c == "oor" && oor) || (c == "fin" && inv) => {
                        cx.hit("reject.skip");
                        full = true;
                    }
                    Err(c) => return fail(format!("reasm.skip.rejected:{c}"), format!("skip({}) from {} returned {c}; final={:?} oor={oor} inv={inv}", op.a, m.consumed, m.fin)),
                }
            }
            "reset" => {
                lib!(lib.reset());
                m = Model::default();
                prior.clear();
                cx.hit("reset");
            }
            other => return fail("harness.bad-op", format!("reasm: unknown op {other}")),
        }
        check_state(&lib, &mut m, full, cx)?;
    }
}

/// seeded, boundary-biased generator; looks at the model frontier only to aim the offsets
pub fn gen(rng: &mut vq_util::Rng, v: &View, step: usize, small: bool) -> Op {
    let (consumed, end, fin) = (v.a, v.b, v.d);
    if step == 0 && rng.chance(2, 5) {
        // move the read cursor next to an allocation-size edge or the top of the offset space
        let base = *rng.pick(&[4096u64 * 15, 65536, 65536 + 16384, 262144, 262144 + 32768, 1 << 20, (1 << 20) + 65536, MAXV - 70000, MAXV - 5000, MAXV - 300]);
        return Op::new("skip", base.saturating_sub(rng.range(0, if small { 300 } else { 9000 })).min(MAXV), 0, 0);
    }
    let cap = if small { 256 } else { 70000 };
    let r = rng.below(100);
    if r >= 62 {
        let wm = *rng.pick(&[1u64, 2, 7, 100, 4095, 4096, 4097, 70000]);
        return match r {
            62..=73 => Op::new("pop", 0, 0, 0),
            74..=79 => Op::new("popw", wm.min(if small { 300 } else { wm }), 0, 0),
            80..=82 => Op::new("rchunk", if rng.chance(1, 8) { 0 } else { wm }, 0, 0),
            83..=87 => Op::new("copy", wm.min(cap), 0, 0),
            88..=90 => Op::new("copyq", if rng.chance(1, 8) { 0 } else { wm.min(cap) }, 0, 0),
            91..=93 => Op::new("pcopy", wm.min(cap), 0, 0),
            94..=95 => Op::new("drain", 0, 0, 0),
            96..=98 => {
                let room = fin.unwrap_or(MAXV) - consumed;
                let some = rng.range(0, 5000);
                let n = *rng.pick(&[0, 1, end - consumed, end - consumed + 1, 4096 - consumed % 4096, some, room, room.saturating_add(1)]);
                Op::new("skip", n.min(MAXV), 0, 0)
            }
            _ => Op::new("reset", 0, 0, 0),
        };
    }
    let sz = slot_size(end);
    let edge = (end / sz + rng.below(3)) * sz + sz;
    let anchor = *rng.pick(&[edge, 65536, 262144, 1 << 20, MAXV]);
    let near = |rng: &mut vq_util::Rng, x: u64| x.saturating_sub(rng.below(3)).saturating_add(rng.below(3));
    let far = rng.range(1, 9000);
    let mut off = match rng.below(100) {
        0..=24 => end,
        25..=39 => end.saturating_sub(rng.range(1, 300)),
        40..=54 => end + *rng.pick(&[1, 2, 63, sz - 1, sz, sz + 1, far]),
        55..=74 => match v.prev {
            Some((o, l)) => *rng.pick(&[o, o, o + 1, o.saturating_sub(1), o + l, (o + l).saturating_sub(1), o + l / 2]),
            None => end,
        },
        75..=94 => near(rng, anchor),
        _ => consumed.saturating_sub(rng.range(1, 5000)),
    };
    if small && off > end + 300 {
        // Miri workload: stay close to the frontier so that data actually flows, edges via the initial skip
        off = if rng.chance(1, 2) { end + rng.range(0, 40) } else { near(rng, (end / sz + 1) * sz) };
    }
    off = off.min(MAXV);
    let to_edge = (off / sz + 1) * sz - off;
    let mut len = match rng.below(100) {
        0..=5 => 0,
        6..=25 => rng.range(1, 8),
        26..=52 => rng.range(9, 300),
        53..=67 => near(rng, to_edge),
        68..=79 => {
            let l = *rng.pick(&[4096, 8192, 16384, to_edge + sz]);
            near(rng, l)
        }
        80..=93 => rng.range(300, 20000),
        _ => rng.range(20000, 70000),
    };
    if small && len > cap {
        len = if to_edge <= cap { near(rng, to_edge) } else { rng.range(1, cap) };
    }
    let mut is_fin = rng.chance(1, 8);
    if let Some(f) = fin {
        match rng.below(10) {
            0..=2 if f >= off => (len, is_fin) = ((f - off).min(cap), rng.chance(1, 2)), // ends exactly at the final size
            3 => len = (f.saturating_sub(off) + rng.range(1, 3)).min(cap),                // pokes beyond it
            _ => {}
        }
    }
    let via = match rng.below(20) { 0..=12 => 0, 13..=18 => 1, _ => 2 };
    Op::new("w", off, len.min(cap), is_fin as u64 | via << 1)
}

/// alphabet of the exhaustive mode: writes on and around the real 4096-byte slot edge
pub fn alphabet(full: bool) -> Vec<Op> {
    let (offs, lens): (&[u64], &[u64]) = if full {
        (&[0, 1, 2, 4094, 4095, 4096, 4097, 4098, 8190, 8191, 8192, 8193], &[0, 1, 3, 4096])
    } else {
        (&[0, 1, 4095, 4096, 4097, 8191], &[0, 2, 4096])
    };
    let mut v = Vec::new();
    for &o in offs {
        for &l in lens {
            for fin in 0..2 {
                v.push(Op::new("w", o, l, fin));
            }
        }
    }
    v.extend([Op::new("pop", 0, 0, 0), Op::new("popw", 1, 0, 0), Op::new("skip", 1, 0, 0), Op::new("skip", 4095, 0, 0)]);
    v
}
