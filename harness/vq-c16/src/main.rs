//! vq-c16 — property C16: the reassembly buffer and the range-set structures of s2n-quic-core
//! behave exactly like independent reference models, checked after every single operation.
//!
//! `vq-c16 --seed S --iters N [--mode random|exhaustive|miri] [--replay file.json]`
//! (exhaustive: `--depth D --alphabet small|full --start I`; see README.md)

use std::{
    collections::{BTreeMap, BTreeSet},
    panic::{catch_unwind, AssertUnwindSafe},
    sync::{
        atomic::{AtomicBool, Ordering::Relaxed},
        Mutex,
    },
};
use vq_util::{arg_str, arg_u64, json, Rng, Summary, Value, Violation};

/// true while a call into s2n-quic-core is on the stack: a panic then is the library's
pub static IN_LIB: AtomicBool = AtomicBool::new(false);
static PANIC: Mutex<String> = Mutex::new(String::new());

macro_rules! lib {
    ($e:expr) => {{
        $crate::IN_LIB.store(true, std::sync::atomic::Ordering::Relaxed);
        let r = $e;
        $crate::IN_LIB.store(false, std::sync::atomic::Ordering::Relaxed);
        r
    }};
}

mod pn;
mod reasm;
mod sets;

/// one operation; the meaning of a/b/c/v depends on `k` and the target (see README.md)
#[derive(Clone, Debug, Default, PartialEq)]
pub struct Op {
    pub k: &'static str,
    pub a: u64,
    pub b: u64,
    pub c: u64,
    pub v: Vec<(u64, u64)>,
}

const KINDS: &[&str] = &[
    "w", "pop", "popw", "rchunk", "drain", "copy", "copyq", "pcopy", "skip", "reset", "ins", "rem", "insv", "remv", "insf", "union", "diff", "inter",
    "popmin", "limit", "nolimit", "clear", "ackins", "ackinsv", "upd", "remr", "chk", "insev",
];
const TARGETS: &[&str] = &["reasm", "iset8", "iset64", "isetpn", "ack", "map", "win"];

impl Op {
    pub fn new(k: &'static str, a: u64, b: u64, c: u64) -> Op {
        Op { k, a, b, c, v: Vec::new() }
    }
    fn json(&self) -> Value {
        json!([self.k, self.a, self.b, self.c, self.v.iter().map(|p| json!([p.0, p.1])).collect::<Vec<_>>()])
    }
    fn parse(v: &Value) -> Option<Op> {
        let k = KINDS.iter().find(|k| Some(**k) == v[0].as_str())?;
        let pairs = v[4].as_array().map(|a| a.iter().filter_map(|p| Some((p[0].as_u64()?, p[1].as_u64()?))).collect());
        Some(Op { k, a: v[1].as_u64()?, b: v[2].as_u64()?, c: v[3].as_u64()?, v: pairs.unwrap_or_default() })
    }
}

/// what a generator may look at (meaning per target): frontier values of the *model*
pub struct View {
    pub a: u64,
    pub b: u64,
    pub c: u64,
    pub d: Option<u64>,
    pub n: usize,
    pub prev: Option<(u64, u64)>,
}

pub struct Fail {
    pub sig: String,
    pub what: String,
}

pub fn fail<T>(sig: impl Into<String>, what: String) -> Result<T, Fail> {
    Err(Fail { sig: sig.into(), what })
}

/// per-process observation state (flushed into the Summary at the end)
#[derive(Default)]
pub struct Cx {
    n: BTreeMap<&'static str, u64>,
    mx: BTreeMap<&'static str, i64>,
    tags: BTreeSet<&'static str>,
    trace: Vec<Op>,
    pub bytes: u64,
    /// set by a runner when the current op uses a form whose failures share one root cause
    pub note: Option<&'static str>,
    verbose: bool,
}

impl Cx {
    pub fn hit(&mut self, tag: &'static str) {
        self.tags.insert(tag);
        *self.n.entry(tag).or_insert(0) += 1;
    }
    pub fn cnt(&mut self, k: &'static str, n: u64) {
        *self.n.entry(k).or_insert(0) += n;
    }
    pub fn max(&mut self, k: &'static str, v: i64) {
        let e = self.mx.entry(k).or_insert(i64::MIN);
        *e = (*e).max(v);
    }
    pub fn begin(&mut self, op: &Op) {
        if self.verbose {
            eprintln!("  op {:3}: {}", self.trace.len(), op.json());
        }
        self.trace.push(op.clone());
        self.note = None;
        self.cnt("ops", 1);
    }
}

#[derive(Clone)]
struct Case {
    target: &'static str,
    key: u64,
    param: u64,
}

fn dispatch(c: &Case, src: &mut dyn FnMut(&View) -> Option<Op>, cx: &mut Cx) -> Result<(), Fail> {
    use s2n_quic_core::{ack::Ranges, interval_set::IntervalSet, packet::number::PacketNumber};
    let limit = (c.param > 0).then_some(c.param as usize);
    fn set<T>(limit: Option<usize>) -> IntervalSet<T> {
        limit.map_or_else(IntervalSet::new, |l| IntervalSet::with_limit(l.try_into().unwrap()))
    }
    match c.target {
        "reasm" => reasm::run(c.key, src, cx),
        "iset8" => sets::run(set::<u8>(limit), limit, src, cx),
        "iset64" => sets::run(set::<u64>(limit), limit, src, cx),
        "isetpn" => sets::run(set::<PacketNumber>(limit), limit, src, cx),
        "ack" => sets::run(Ranges::new(c.param.max(1) as usize), Some(c.param.max(1) as usize), src, cx),
        "map" => pn::run_map(src, cx),
        "win" => pn::run_win(src, cx),
        t => fail("harness.bad-target", format!("unknown target {t}")),
    }
}

enum Outcome {
    Pass,
    Violation(String, String),
    Harness(String),
}

/// run one op sequence; library panics are violations, harness panics are inconclusive
fn execute(c: &Case, src: &mut dyn FnMut(&View) -> Option<Op>, cx: &mut Cx) -> Outcome {
    cx.tags.clear();
    cx.trace.clear();
    IN_LIB.store(false, Relaxed);
    match catch_unwind(AssertUnwindSafe(|| dispatch(c, src, &mut *cx))) {
        Ok(Ok(())) => Outcome::Pass,
        Ok(Err(f)) if f.sig.starts_with("harness.") => Outcome::Harness(format!("{}: {}", f.sig, f.what)),
        Ok(Err(f)) => match cx.note {
            Some(n) => Outcome::Violation(n.into(), format!("[{}] {}", f.sig, f.what)),
            None => Outcome::Violation(f.sig, f.what),
        },
        Err(_) => {
            let msg = PANIC.lock().unwrap().clone();
            if IN_LIB.swap(false, Relaxed) {
                // stable signature: source file + message, every run of digits blanked to one '#'
                let mut norm = String::new();
                for ch in msg.chars().map(|c| if c.is_ascii_digit() { '#' } else { c }) {
                    if !(ch == '#' && norm.ends_with('#')) && norm.len() < 80 {
                        norm.push(ch);
                    }
                }
                Outcome::Violation(format!("{}.panic:{norm}", c.target), format!("library panicked: {msg}"))
            } else {
                Outcome::Harness(format!("harness panic: {msg}"))
            }
        }
    }
}

fn replay_json(mode: &str, seed: u64, index: u64, c: &Case, ops: &[Op]) -> Value {
    json!({"mode": mode, "seed": seed, "index": index, "target": c.target, "key": c.key, "param": c.param, "ops": ops.iter().map(Op::json).collect::<Vec<_>>()})
}

fn run_list(c: &Case, ops: &[Op], cx: &mut Cx) -> Outcome {
    let mut it = ops.iter().cloned();
    execute(c, &mut |_| it.next(), cx)
}

/// greedy one-op-at-a-time minimisation that keeps the violation signature
fn shrink(c: &Case, mut ops: Vec<Op>, sig: &str) -> Vec<Op> {
    let mut scratch = Cx::default();
    let same = |ops: &[Op], cx: &mut Cx| matches!(run_list(c, ops, cx), Outcome::Violation(s, _) if s == sig);
    let mut i = ops.len();
    while i > 0 && ops.len() > 1 {
        i -= 1;
        let mut t = ops.clone();
        t.remove(i);
        if same(&t, &mut scratch) {
            ops = t;
            i = i.min(ops.len());
        }
    }
    ops
}

struct Run {
    sum: Summary,
    cx: Cx,
    mode: &'static str,
    seed: u64,
    seen_sigs: BTreeSet<String>,
    /// restrict random mode to one target (`--target reasm`), default all
    only: Option<&'static str>,
}

impl Run {
    fn finish(&mut self, c: &Case, index: u64, out: Outcome) {
        self.sum.evaluations += 1;
        self.sum.count(&format!("sequences.{}", c.target), 1);
        let cx = &mut self.cx;
        match out {
            Outcome::Pass => {
                // classes that every plain in-order workload hits do not make a sequence interesting
                const BORING: &[&str] = &["w.in_order", "w.empty", "w.fin", "via.", "read.", "form.", "skip.zero", "reset", "set.insert_disjoint", "set.remove_trims_or_misses", "map.insert", "win.new", "win.advance", "ack.new_range"];
                let shape: Vec<&str> = cx.tags.iter().copied().filter(|t| !BORING.iter().any(|b| t.starts_with(b))).collect();
                if shape.is_empty() {
                    self.sum.trivial += 1;
                } else {
                    let h = shape.iter().fold(vq_util::hash_str(c.target), |h, t| vq_util::mix(h, vq_util::hash_str(t)));
                    if self.sum.signatures.insert(h) && shape.len() >= 6 {
                        self.sum.sample(json!({"target": c.target, "classes": shape, "ops": cx.trace.iter().take(12).map(Op::json).collect::<Vec<_>>()}));
                    }
                }
            }
            Outcome::Harness(what) => self.sum.inconclusive.push(format!("{} #{index}: {what}", c.target)),
            Outcome::Violation(sig, what) => {
                self.sum.count(&format!("violation.{sig}"), 1);
                if self.seen_sigs.insert(sig.clone()) {
                    let ops = shrink(c, cx.trace.clone(), &sig);
                    eprintln!("VIOLATION {sig}: {what}\n  minimal ops: {}", Value::from(ops.iter().map(Op::json).collect::<Vec<_>>()));
                    self.sum.violation(Violation { property: "C16".into(), signature: sig, what, replay: replay_json(self.mode, self.seed, index, c, &ops) });
                }
            }
        }
    }

    fn random(&mut self, iters: u64, small: bool, op_budget: u64) {
        let mut master = Rng::new(self.seed);
        for index in 0..iters {
            if small && self.cx.n.get("ops").copied().unwrap_or(0) >= op_budget {
                break;
            }
            let mut rng = master.fork();
            let target = if let Some(t) = self.only { t } else if small {
                // Miri is here for the unsafe code, which is all in the reassembler
                ["reasm", "reasm", "map", "reasm", "ack", "reasm", "reasm", "win", "reasm", "iset8", "reasm", "isetpn", "reasm", "iset64"][(index % 14) as usize]
            } else { *rng.pick(&["reasm", "reasm", "reasm", "reasm", "reasm", "reasm", "iset8", "iset8", "iset64", "isetpn", "ack", "ack", "map", "win"]) };
            let param = match target {
                "ack" => rng.range(1, 6),
                "reasm" | "map" | "win" => 0,
                _ => if rng.chance(1, 3) { rng.range(1, 6) } else { 0 },
            };
            let c = Case { target, key: rng.next(), param };
            let len = match (small, target) {
                (true, _) => rng.range(8, 14),
                (_, "reasm") => rng.range(3, 24),
                _ => rng.range(8, 70),
            } as usize;
            let mut step = 0;
            let mut src = |v: &View| {
                if step == len {
                    return None;
                }
                step += 1;
                Some(match target {
                    "reasm" => reasm::gen(&mut rng, v, step - 1, small),
                    "map" => pn::gen_map(&mut rng, v, small),
                    "win" => pn::gen_win(&mut rng, v),
                    t => sets::gen(&mut rng, v, step - 1, t == "ack", small),
                })
            };
            let out = execute(&c, &mut src, &mut self.cx);
            self.finish(&c, index, out);
        }
    }

    /// all sequences of exactly `depth` symbols (every shorter sequence is a checked prefix of one)
    fn exhaustive(&mut self, depth: u32, full: bool, start: u64, iters: u64) {
        let alpha = reasm::alphabet(full);
        let space = (alpha.len() as u64).pow(depth);
        let end = if iters == 0 { space } else { space.min(start.saturating_add(iters)) };
        let c = Case { target: "reasm", key: 0xC16, param: 0 };
        for index in start.min(space)..end {
            let (mut rest, mut left) = (index, depth);
            let mut src = |_: &View| {
                if left == 0 {
                    return None;
                }
                left -= 1;
                let op = alpha[(rest % alpha.len() as u64) as usize].clone();
                rest /= alpha.len() as u64;
                Some(op)
            };
            let out = execute(&c, &mut src, &mut self.cx);
            self.finish(&c, index, out);
        }
        self.sum.count("exhaustive.alphabet", alpha.len() as u64);
        self.sum.count("exhaustive.depth", depth as u64);
        self.sum.count("exhaustive.space", space);
        self.sum.count("exhaustive.start", start);
        self.sum.count("exhaustive.done", end.saturating_sub(start.min(space)));
        self.sum.set("exhaustive", if start == 0 && end == space { "true" } else { "partial" });
    }
}

fn main() {
    let args = vq_util::parse_args();
    let seed = arg_u64(&args, "seed", 1);
    let iters = arg_u64(&args, "iters", 1000);
    let mode = match arg_str(&args, "mode", "random") { "exhaustive" => "exhaustive", "miri" => "miri", _ => "random" };
    std::panic::set_hook(Box::new(|info| {
        let loc = info.location().map(|l| format!("{}:{}", l.file().rsplit('/').next().unwrap_or(""), l.line())).unwrap_or_default();
        let msg = info.payload().downcast_ref::<&str>().map(|s| s.to_string()).or_else(|| info.payload().downcast_ref::<String>().cloned()).unwrap_or_default();
        *PANIC.lock().unwrap() = format!("{loc}: {}", msg.lines().next().unwrap_or(""));
    }));
    let mut run = Run { sum: Summary::default(), cx: Cx::default(), mode, seed, seen_sigs: BTreeSet::new(), only: TARGETS.iter().find(|t| Some(**t) == args.get("target").map(|s| s.as_str())).copied() };
    if reasm::payload(seed, 5, 100) != vq_util::prf_vec(seed, 5, 100) {
        run.sum.inconclusive.push("harness: fast payload generator disagrees with vq_util::prf_vec".into());
    } else if let Some(path) = args.get("replay") {
        let v: Value = std::fs::read_to_string(path).ok().and_then(|s| serde_json_from(&s)).unwrap_or(Value::Null);
        let ops: Option<Vec<Op>> = v["ops"].as_array().map(|a| a.iter().filter_map(Op::parse).collect());
        match (TARGETS.iter().find(|t| Some(**t) == v["target"].as_str()), ops) {
            (Some(target), Some(ops)) if Some(ops.len()) == v["ops"].as_array().map(|a| a.len()) => {
                let c = Case { target, key: v["key"].as_u64().unwrap_or(0), param: v["param"].as_u64().unwrap_or(0) };
                eprintln!("replaying {} ops on {}", ops.len(), c.target);
                run.cx.verbose = true;
                let out = run_list(&c, &ops, &mut run.cx);
                run.cx.verbose = false;
                run.mode = "replay";
                run.finish(&c, v["index"].as_u64().unwrap_or(0), out);
            }
            _ => run.sum.inconclusive.push(format!("harness: cannot parse replay file {path}")),
        }
    } else {
        match mode {
            "exhaustive" => run.exhaustive(arg_u64(&args, "depth", 4) as u32, arg_str(&args, "alphabet", "small") == "full", arg_u64(&args, "start", 0), if args.contains_key("iters") { iters } else { 0 }),
            "miri" => run.random(u64::MAX, true, iters),
            _ => run.random(iters, false, 0),
        }
    }
    let Run { mut sum, cx, mode, .. } = run;
    for (k, v) in &cx.n {
        sum.count(k, *v);
    }
    for (k, v) in &cx.mx {
        sum.max(k, *v);
    }
    sum.count("bytes_compared", cx.bytes);
    sum.set("mode", mode);
    if sum.evaluations == 0 || cx.n.get("ops").copied().unwrap_or(0) == 0 {
        sum.inconclusive.push("no operation was executed".into());
    }
    sum.print();
}

fn serde_json_from(s: &str) -> Option<Value> {
    s.parse().ok()
}
