//! `interval_set::IntervalSet<T>` (T = u8, u64, PacketNumber) and `ack::Ranges` against a
//! `BTreeSet<u64>` of member values; intervals are recomputed from the members as maximal runs.

use crate::{fail, Cx, Fail, Op, View};
use s2n_quic_core::{
    ack::{ranges::Error as AckError, Ranges},
    frame::ack::AckRanges as _,
    interval_set::{IntervalBound, IntervalSet, IntervalSetError},
    packet::number::{PacketNumber, PacketNumberRange, PacketNumberSpace},
    varint::VarInt,
};
use std::{collections::BTreeSet, num::NonZeroUsize, ops::Bound};

pub trait Dom: IntervalBound + core::fmt::Debug {
    const MAX: u64;
    fn of(v: u64) -> Self;
    fn to(self) -> u64;
}
impl Dom for u8 {
    const MAX: u64 = 255;
    fn of(v: u64) -> Self { v as u8 }
    fn to(self) -> u64 { self as u64 }
}
impl Dom for u64 {
    const MAX: u64 = u64::MAX;
    fn of(v: u64) -> Self { v }
    fn to(self) -> u64 { self }
}
impl Dom for PacketNumber {
    const MAX: u64 = (1 << 62) - 1;
    fn of(v: u64) -> Self { PacketNumberSpace::ApplicationData.new_packet_number(VarInt::new(v).unwrap()) }
    fn to(self) -> u64 { self.as_u64() }
}

/// the thing under test: a plain interval set, or ack::Ranges (which derefs to one)
pub trait Host<T: Dom> {
    fn set(&mut self) -> &mut IntervalSet<T>;
    fn ack_insert(&mut self, _a: u64, _b: u64, _single: bool) -> Option<Result<(), AckError>> { None }
    fn ack_view(&self) -> Option<(usize, Vec<(u64, u64)>)> { None }
}
impl<T: Dom> Host<T> for IntervalSet<T> {
    fn set(&mut self) -> &mut IntervalSet<T> { self }
}
impl Host<PacketNumber> for Ranges {
    fn set(&mut self) -> &mut IntervalSet<PacketNumber> { self }
    fn ack_insert(&mut self, a: u64, b: u64, single: bool) -> Option<Result<(), AckError>> {
        Some(if single {
            self.insert_packet_number(PacketNumber::of(a))
        } else {
            self.insert_packet_number_range(PacketNumberRange::new(PacketNumber::of(a), PacketNumber::of(b)))
        })
    }
    fn ack_view(&self) -> Option<(usize, Vec<(u64, u64)>)> {
        Some((self.spread(), (&self).ack_ranges().map(|r| (r.start().as_u64(), r.end().as_u64())).collect()))
    }
}

/// maximal runs of consecutive members
pub fn runs(s: &BTreeSet<u64>) -> Vec<(u64, u64)> {
    let mut out: Vec<(u64, u64)> = Vec::new();
    for &v in s {
        match out.last_mut() {
            Some(l) if l.1.checked_add(1) == Some(v) => l.1 = v,
            _ => out.push((v, v)),
        }
    }
    out
}

fn span(a: u64, b: u64) -> impl Iterator<Item = u64> {
    a..=b
}

struct M {
    s: BTreeSet<u64>,
    limit: Option<usize>,
}

impl M {
    /// documented rule: an insert that needs one more interval than the limit allows is rejected
    fn insert(&mut self, a: u64, b: u64) -> bool {
        let n_old = runs(&self.s).len();
        let mut u = self.s.clone();
        u.extend(span(a, b));
        if runs(&u).len() > n_old && self.limit.is_some_and(|l| n_old >= l) {
            return false;
        }
        self.s = u;
        true
    }
    /// Some(true/false) = must be accepted / rejected, None = the limit rule can be read either way
    fn remove(&mut self, a: u64, b: u64, lib_ok: bool) -> Option<bool> {
        let n_old = runs(&self.s).len();
        let mut d = self.s.clone();
        span(a, b).for_each(|v| { d.remove(&v); });
        let verdict = match self.limit {
            Some(l) if runs(&d).len() > n_old && n_old + 1 > l => Some(false),
            Some(l) if runs(&d).len() > n_old && n_old + 1 == l => None, // split reaching exactly the limit
            _ => Some(true),
        };
        if verdict.unwrap_or(lib_ok) {
            self.s = d;
        }
        verdict
    }
}

fn pairs<T: Dom>(lib: &IntervalSet<T>) -> Vec<(u64, u64)> {
    lib.intervals().map(|i| (i.start_inclusive().to(), i.end_inclusive().to())).collect()
}

fn check<T: Dom>(lib: &IntervalSet<T>, m: &BTreeSet<u64>, extra: &[u64]) -> Result<(), Fail> {
    let want = runs(m);
    let got = lib!(pairs(lib));
    if got != want {
        let flat: BTreeSet<u64> = got.iter().filter(|(a, b)| a <= b && b - a < 100_000).flat_map(|&(a, b)| span(a, b)).collect();
        let sig = if &flat == m { "iset.not-canonical" } else { "iset.content" };
        return fail(sig, format!("intervals {got:?}, model runs {want:?}"));
    }
    macro_rules! same {
        ($name:literal, $got:expr, $want:expr) => {{
            let (g, w) = (lib!($got), $want);
            if g != w {
                return fail(concat!("iset.query.", $name), format!("{} = {:?}, model says {:?}; set {:?}", $name, g, w, want));
            }
        }};
    }
    same!("interval_len", lib.interval_len(), want.len());
    same!("count", lib.count(), m.len());
    same!("is_empty", lib.is_empty(), m.is_empty());
    same!("min_value", lib.min_value().map(Dom::to), m.first().copied());
    same!("max_value", lib.max_value().map(Dom::to), m.last().copied());
    same!("iter", lib.iter().map(Dom::to).collect::<Vec<_>>(), m.iter().copied().collect::<Vec<_>>());
    same!("iter.rev", lib.iter().rev().map(Dom::to).collect::<Vec<_>>(), m.iter().rev().copied().collect::<Vec<_>>());
    same!("inclusive_ranges", lib.inclusive_ranges().map(|r| (r.start().to(), r.end().to())).collect::<Vec<_>>(), want.clone());
    if m.last().is_some_and(|l| *l < T::MAX) {
        same!("ranges", lib.ranges().map(|r| (r.start.to(), r.end.to())).collect::<Vec<_>>(), want.iter().map(|&(a, b)| (a, b + 1)).collect::<Vec<_>>());
    }
    let probes = want.iter().flat_map(|&(a, b)| [a.saturating_sub(1), a, b, b.saturating_add(1).min(T::MAX)]).chain(extra.iter().copied());
    for p in probes {
        same!("contains", lib.contains(&T::of(p)), m.contains(&p));
    }
    Ok(())
}

fn to_set<T: Dom>(v: &[(u64, u64)]) -> IntervalSet<T> {
    let mut s = IntervalSet::new();
    for &(a, b) in v {
        s.insert(T::of(a)..=T::of(b)).expect("unlimited set accepts every valid interval");
    }
    s
}

macro_rules! ranged {
    ($set:expr, $m:ident, $a:expr, $b:expr, $form:expr) => {
        match $form {
            1 => $set.$m($a..$b.step_up().unwrap()),
            2 => $set.$m((Bound::Excluded($a.step_down().unwrap()), Bound::Included($b))),
            _ => $set.$m($a..=$b),
        }
    };
}

pub fn run<T: Dom, H: Host<T>>(mut host: H, limit: Option<usize>, src: &mut dyn FnMut(&View) -> Option<Op>, cx: &mut Cx) -> Result<(), Fail> {
    let mut m = M { s: BTreeSet::new(), limit };
    let is_ack = host.ack_view().is_some();
    loop {
        let view = View { a: m.s.first().copied().unwrap_or(0), b: m.s.last().copied().unwrap_or(0), c: T::MAX, d: m.limit.map(|l| l as u64), n: m.s.len(), prev: None };
        let Some(op) = src(&view) else { return Ok(()) };
        cx.begin(&op);
        let (a, b) = (op.a, if op.k.ends_with('v') { op.a } else { op.b });
        let n_old = runs(&m.s).len();
        let lim = |e: &Result<(), IntervalSetError>| matches!(e, Err(IntervalSetError::LimitExceeded));
        match op.k {
            "ins" | "rem" | "insv" | "remv" | "insf" => {
                // range syntax: 0 `a..=b`, 1 `a..b+1`, 2 `(Excluded(a-1), Included(b))`
                let form = match op.c { 1 if b < T::MAX => 1, 2 if a > 0 && a <= b && op.k.len() == 3 => 2, _ => 0 };
                if form == 2 {
                    cx.note = Some("iset.exclusive-start-bound"); // any disagreement in this step gets this signature
                }
                let (ta, tb) = (T::of(a), T::of(b));
                let set = host.set();
                let res = lib!(match op.k {
                    "ins" => ranged!(set, insert, ta, tb, form),
                    "rem" => ranged!(set, remove, ta, tb, form),
                    "insf" => set.insert_front(ta..=tb),
                    "insv" => set.insert_value(ta),
                    _ => set.remove_value(ta),
                });
                cx.hit(["form.inclusive", "form.exclusive_end", "form.exclusive_start"][form]);
                if a > b {
                    if res != Err(IntervalSetError::InvalidInterval) {
                        return fail("iset.invalid-interval-accepted", format!("{} {a}..={b} returned {res:?}", op.k));
                    }
                    cx.hit("set.invalid_interval");
                } else if op.k.starts_with("ins") {
                    let ok = m.insert(a, b);
                    if ok != res.is_ok() || !(ok || lim(&res)) {
                        return fail(format!("iset.insert.verdict:{}", if ok { "rejected-valid" } else { "accepted-over-limit" }), format!("{} {a}..={b} returned {res:?}, model accept={ok}; {n_old} intervals, limit {:?}", op.k, m.limit));
                    }
                    let n = runs(&m.s).len();
                    cx.hit(if !ok { "set.limit_reject" } else if n > n_old { "set.insert_disjoint" } else if n + 1 < n_old { "set.insert_merges_many" } else if n < n_old { "set.insert_bridges_two" } else { "set.insert_extends_or_contained" });
                } else {
                    let v = m.remove(a, b, res.is_ok());
                    if v.is_some_and(|v| v != res.is_ok()) || !(res.is_ok() || lim(&res)) {
                        return fail(format!("iset.remove.verdict:{}", if v == Some(true) { "rejected-valid" } else { "accepted-over-limit" }), format!("{} {a}..={b} returned {res:?}, model verdict {v:?}; {n_old} intervals, limit {:?}", op.k, m.limit));
                    }
                    let n = runs(&m.s).len();
                    cx.hit(match v { None if res.is_ok() => "open.split_to_limit.accepted", None => "open.split_to_limit.rejected", Some(false) => "set.limit_reject", _ if n > n_old => "set.remove_splits", _ if n < n_old => "set.remove_whole_intervals", _ => "set.remove_trims_or_misses" });
                }
            }
            "union" | "diff" | "inter" => {
                let other = to_set::<T>(&op.v);
                let ov: BTreeSet<u64> = op.v.iter().flat_map(|&(a, b)| span(a, b)).collect();
                let before = m.s.clone();
                let want_inter: BTreeSet<u64> = before.intersection(&ov).copied().collect();
                let got: Vec<u64> = lib!(host.set().intersection_iter(&other).flatten().map(Dom::to).collect());
                if got != want_inter.iter().copied().collect::<Vec<_>>() {
                    return fail("iset.intersection_iter", format!("intersection_iter gives {got:?}, model {want_inter:?}"));
                }
                let res = lib!(match op.k { "union" => host.set().union(&other), "diff" => host.set().difference(&other), _ => host.set().intersection(&other) });
                // replay interval by interval under the strict and the conservative reading of the limit
                let (mut strict, mut loose, mut full) = (true, true, M { s: before.clone(), limit: None });
                for &(x, y) in runs(&ov).iter() {
                    match op.k {
                        "union" => { strict &= m.insert(x, y); loose = strict; full.insert(x, y); }
                        "diff" => { let v = m.remove(x, y, true); strict &= v != Some(false); loose &= v == Some(true); full.remove(x, y, true); }
                        _ => {}
                    }
                }
                if op.k == "inter" {
                    full.s = want_inter;
                    cx.hit("set.intersection");
                } else if op.k == "union" && before.is_empty() && !strict {
                    loose = true; // union into an empty limited set: the limit is documented for `insert` only
                }
                let now: BTreeSet<u64> = lib!(pairs(host.set())).iter().filter(|(a, b)| a <= b && b - a < 100_000).flat_map(|&(a, b)| span(a, b)).collect();
                let (lo, hi) = if op.k == "union" { (&before, &full.s) } else { (&full.s, &before) };
                match res {
                    Ok(()) if !(strict || loose) => return fail(format!("iset.{}.accepted-over-limit", op.k), format!("{} of {:?} accepted with limit {:?}", op.k, op.v, m.limit)),
                    Ok(()) => m.s = full.s.clone(),
                    Err(IntervalSetError::LimitExceeded) if !(strict && loose) && lo.is_subset(&now) && now.is_subset(hi) => {
                        m.s = now; // partially applied; contents stay between the two bounds
                        cx.hit("set.limit_reject_partial");
                    }
                    Err(e) => return fail(format!("iset.{}.rejected", op.k), format!("{} of {:?} returned {e:?}; limit {:?}, contents {now:?}", op.k, op.v, m.limit)),
                }
                if strict != loose {
                    cx.hit(if res.is_ok() { "open.setop_limit.accepted" } else { "open.setop_limit.rejected" });
                }
                cx.hit(match op.k { "union" => "set.union", "diff" => "set.difference", _ => "set.intersection" });
            }
            "popmin" => {
                let got = lib!(host.set().pop_min()).map(|i| (i.start_inclusive().to(), i.end_inclusive().to()));
                let want = runs(&m.s).first().copied();
                if got != want {
                    return fail("iset.pop_min", format!("pop_min() = {got:?}, lowest model run {want:?}"));
                }
                if let Some((x, y)) = want {
                    span(x, y).for_each(|v| { m.s.remove(&v); });
                }
                cx.hit("set.pop_min");
            }
            "limit" => { host.set().set_limit(NonZeroUsize::new(a.max(1) as usize).unwrap()); m.limit = Some(a.max(1) as usize); cx.hit("set.set_limit"); }
            "nolimit" => { host.set().remove_limit(); m.limit = None; }
            "clear" => { lib!(host.set().clear()); m.s.clear(); }
            "ackins" | "ackinsv" => {
                let b = if op.k == "ackinsv" { a } else { b };
                let res = lib!(host.ack_insert(a, b, op.k == "ackinsv")).expect("ack ops only for the ack target");
                // reference rule: take the union; if it needs more than `limit` ranges drop the lowest one
                let mut u = m.s.clone();
                u.extend(span(a, b));
                let r = runs(&u);
                let l = m.limit.unwrap_or(usize::MAX);
                let want = if r.len() <= l || r.len() <= n_old {
                    cx.hit(if r.len() > n_old { "ack.new_range" } else { "ack.merged" });
                    Ok(())
                } else {
                    let (x, y) = r[0];
                    span(x, y).for_each(|v| { u.remove(&v); });
                    let (min, max) = (PacketNumber::of(x), PacketNumber::of(y));
                    if (x, y) == (a, b) { cx.hit("ack.rejected_below_lowest"); Err(AckError::RangeInsertionFailed { min, max }) } else { cx.hit("ack.evicted_lowest"); Err(AckError::LowestRangeDropped { min, max }) }
                };
                m.s = u;
                if res != want {
                    return fail(format!("ack.insert.result:{}", match res { Ok(()) => "ok", Err(AckError::RangeInsertionFailed { .. }) => "insertion-failed", Err(_) => "lowest-dropped" }), format!("insert {a}..={b} returned {res:?}, model expects {want:?} (limit {l})"));
                }
            }
            other => return fail("harness.bad-op", format!("sets: unknown op {other}")),
        }
        check(host.set(), &m.s, &[a, b])?;
        if let Some(l) = m.limit {
            cx.max("set.max_intervals_under_limit", runs(&m.s).len() as i64);
            if is_ack && runs(&m.s).len() > l {
                return fail("ack.limit-exceeded", format!("{} ranges with limit {l}", runs(&m.s).len()));
            }
        }
        if let Some((spread, desc)) = lib!(host.ack_view()) {
            let mut want = runs(&m.s);
            want.reverse();
            let ws = m.s.last().map_or(0, |l| l - m.s.first().unwrap());
            if desc != want || spread as u64 != ws {
                return fail("ack.view", format!("ack_ranges() {desc:?} spread {spread}, model {want:?} spread {ws}"));
            }
        }
        cx.max("set.max_intervals", runs(&m.s).len() as i64);
    }
}

pub fn gen(rng: &mut vq_util::Rng, v: &View, step: usize, ack: bool, small: bool) -> Op {
    let max = v.c;
    // values live in three clusters so that the member-set model stays small
    let centre = *rng.pick(&[0u64, 0, if max > 255 { 1000 } else { 100 }, max, v.a, v.b]);
    let val = |rng: &mut vq_util::Rng| {
        let d = rng.range(0, if small { 12 } else { 40 });
        if centre >= max - 40 || rng.chance(1, 2) { centre.saturating_sub(d) } else { centre.saturating_add(d).min(max) }
    };
    let x = val(rng);
    let y = x.saturating_add(*rng.pick(&[0, 0, 1, 1, 2, 3, 5, 9, 30])).min(max);
    let (a, b) = if rng.chance(1, 30) && x != y { (y, x) } else { (x, y) };
    let others = |rng: &mut vq_util::Rng| {
        let mut s = BTreeSet::new();
        for _ in 0..rng.range(0, if step == 0 { 24 } else { 5 }) {
            let x = val(rng);
            s.extend(span(x, x.saturating_add(rng.below(4)).min(max)));
        }
        runs(&s)
    };
    let form = if rng.chance(1, 300) { 2 } else { rng.below(3) / 2 };
    if ack {
        return match rng.below(100) {
            0..=44 => Op::new("ackinsv", if rng.chance(1, 2) { v.b.saturating_add(rng.range(1, 3)).min(max) } else { x }, 0, 0),
            45..=74 => Op::new("ackins", a.min(b), a.max(b), 0),
            75..=89 => Op::new("rem", a.min(b), a.max(b), 0),
            90..=94 => Op::new("remv", x, 0, 0),
            95..=97 => Op::new("popmin", 0, 0, 0),
            _ => Op::new("clear", 0, 0, 0),
        };
    }
    if step == 0 && rng.chance(1, 3) {
        return Op { k: "union", v: others(rng), ..Default::default() }; // start with many intervals (binary-search path)
    }
    match rng.below(100) {
        0..=27 => Op::new("ins", a, b, form),
        28..=39 => Op::new("insv", x, 0, 0),
        40..=57 => Op::new("rem", a, b, form),
        58..=65 => Op::new("remv", x, 0, 0),
        66..=68 if v.n > 0 && v.a > 0 => { let hi = v.a - rng.range(1, 2).min(v.a); Op::new("insf", hi.saturating_sub(rng.below(3)), hi, 0) }
        66..=74 => Op { k: "union", v: others(rng), ..Default::default() },
        75..=81 => Op { k: "diff", v: others(rng), ..Default::default() },
        82..=87 => Op { k: "inter", v: others(rng), ..Default::default() },
        88..=92 => Op::new("popmin", 0, 0, 0),
        93..=96 => Op::new("limit", rng.range(1, 6), 0, 0),
        97..=98 => Op::new("nolimit", 0, 0, 0),
        _ => Op::new("clear", 0, 0, 0),
    }
}
