//! C09 (component part, clause d): `RttEstimator`, `Pto` and `loss::detect` against a direct
//! transcription of RFC 9002 section 5 / 6.1.2 / 6.2.1 and appendix A.7.
//!
//! Tolerances (stated once, used below):
//!  * `update_rtt` computes `w/8*7 + a/8` and `v/4*3 + x/4` on integer nanoseconds, dividing
//!    first.  Against the exact rational (7w+a)/8 that loses at most 7 ns (srtt) and 3 ns
//!    (rttvar) per step, always downwards.  LOCAL check (RFC rule applied to the estimator's own
//!    previous values): |diff| <= 8 ns / 4 ns.  GLOBAL check (independent f64 model run over the
//!    whole history): the error recurrence e' = 7/8 e + 7 is bounded by 56 ns for srtt and
//!    e' = 3/4 e + 1/4*56 + 3 by 68 ns for rttvar: tolerances 64 ns / 96 ns.
//!  * `pto_period` works on whole microseconds: truncating srtt, 4*trunc(rttvar) and
//!    max_ack_delay loses < 1+4+1 us, times the backoff: impl in [exact - 6us*backoff, exact].
//!  * `loss_time_threshold` is t + t/8 on integer ns: within 1 ns of 9/8*t.
//!  * samples below 1 us are raised to 1 us (`MIN_RTT`, the documented resolution of the
//!    estimator and of `Timestamp`); the oracle applies the same floor and counts such samples.
//!  * `Timestamp::has_elapsed` treats deadlines less than kGranularity (1 ms) ahead as due, so
//!    `loss::detect` / `Pto::on_timeout` may act up to 1 ms early; inside that band either
//!    outcome is accepted and counted.
//!
//! Where RFC 9002 5.3 leaves a choice (ignoring ack delay for Initial packets, ignoring samples
//! before handshake confirmation, exact equality latest_rtt == min_rtt + ack_delay, the order of
//! the rttvar/srtt updates in 5.3 vs. appendix A.7 / erratum 7539, re-seeding after persistent
//! congestion) every permitted outcome is accepted and the one taken is counted.

use crate::common::{guarded, panic_sig, ts, Caught, Fail, Params};
use core::{task::Poll, time::Duration};
use s2n_quic_core::{
    packet::number::PacketNumberSpace,
    recovery::{loss, Pto, RttEstimator, K_GRANULARITY},
    time::timer::Provider as _,
    transport::parameters::MaxAckDelay,
    varint::VarInt,
};
use vq_util::{json, mix, Rng, Summary, Violation};


/// formats and records a trace line only when tracing is on (off under Miri unless --verbose:
/// the witness of a Miri-mode history is regenerated natively with `--replay`)
macro_rules! trace {
    ($s:expr, $($arg:tt)*) => {
        if $s.tracing {
            let m = format!($($arg)*);
            $s.log(m);
        }
    };
}

const MS: f64 = 1_000_000.0;
const GRANULARITY_NS: f64 = MS;

fn ns(d: Duration) -> f64 {
    d.as_nanos() as f64
}

/// RFC 9002 transcription, nanoseconds in f64 (exact to ~1e-5 ns in the value range used)
#[derive(Clone, Debug)]
struct Model {
    has_sample: bool,
    latest: f64,
    min: f64,
    srtt: f64,
    rttvar: f64,
    max_ack_delay: f64,
    /// range of the adjusted samples that entered smoothed_rtt since it was (re)seeded
    lo: f64,
    hi: f64,
}

#[derive(Clone, Copy, Debug, PartialEq)]
enum Cand {
    /// smoothed values unchanged (sample ignored before handshake confirmation)
    Ignore,
    /// EWMA update with this adjusted sample; `a7` = rttvar computed from the old srtt
    /// (appendix A.7 / erratum 7539) rather than from the new one (5.3 as published)
    Update { adjusted: f64, a7: bool },
    /// first-sample rule
    Seed,
}

fn ewma(srtt: f64, rttvar: f64, adjusted: f64, a7: bool) -> (f64, f64) {
    let s2 = 0.875 * srtt + 0.125 * adjusted;
    let sample = if a7 {
        (srtt - adjusted).abs()
    } else {
        (s2 - adjusted).abs()
    };
    (s2, 0.75 * rttvar + 0.25 * sample)
}

#[derive(Default)]
struct Stats {
    samples: u64,
    sub_us: u64,
    seeded: u64,
    ignored: u64,
    ack_delay_subtracted: u64,
    ack_delay_not_subtracted: u64,
    ack_delay_clamped: u64,
    equality_edge: u64,
    initial_ack_delay_ignored: u64,
    order_a7: u64,
    order_53: u64,
    order_indistinguishable: u64,
    pc_reseed: u64,
    pto_checks: u64,
    pto_chains: u64,
    pto_expiries: u64,
    pto_early_band: u64,
    loss_checks: u64,
    loss_lost_pkt: u64,
    loss_lost_time: u64,
    loss_early_band: u64,
    loss_not_yet: u64,
    loss_not_declared: u64,
    thr_checks: u64,
    min_time_margin_ns: i64,
    max_pto_shortfall_ns: i64,
    max_pc_threshold_shortfall_ms: i64,
    max_backoff: u32,
    shape: u32,
}

mod shape {
    pub const CONFIRMED: u32 = 1;
    pub const PRE_CONFIRM_IGNORED: u32 = 2;
    pub const CLAMPED: u32 = 4;
    pub const NOT_SUBTRACTED: u32 = 8;
    pub const EQUALITY: u32 = 16;
    pub const PC: u32 = 32;
    pub const SUB_US: u32 = 64;
    pub const HUGE: u32 = 128;
    pub const PTO_CHAIN: u32 = 256;
    pub const LOSS_TIME: u32 = 512;
    pub const LOSS_PKT: u32 = 1024;
    pub const INITIAL_SPACE: u32 = 2048;
    pub const MAD_ZERO: u32 = 4096;
}

struct Hist {
    est: RttEstimator,
    m: Model,
    rng: Rng,
    confirmed: bool,
    now_us: u64,
    after_pc: bool,
    st: Stats,
    verbose: bool,
    tracing: bool,
    trace: Vec<String>,
    fail: Option<Fail>,
    ops: u64,
}

impl Hist {
    fn new(mut rng: Rng, verbose: bool, tracing: bool) -> Self {
        let initial = match rng.below(4) {
            0 => Duration::from_millis(333),
            1 => Duration::from_micros(rng.range(1, 1000)),
            2 => Duration::from_millis(rng.range(1, 2000)),
            _ => Duration::from_nanos(rng.range(1_000, 3_000_000_000)),
        };
        let mut est = RttEstimator::new(initial);
        let mad_ms = match rng.below(6) {
            0 => 0,
            1 => 25,
            2 => 16383,
            _ => rng.range(1, 400),
        };
        let mad = MaxAckDelay::new(VarInt::new(mad_ms).unwrap()).expect("valid max_ack_delay");
        est.on_max_ack_delay(mad);
        let m = Model {
            has_sample: false,
            latest: ns(initial),
            min: ns(initial),
            srtt: ns(initial),
            rttvar: ns(initial) / 2.0,
            max_ack_delay: mad_ms as f64 * MS,
            lo: ns(initial),
            hi: ns(initial),
        };
        let mut st = Stats {
            min_time_margin_ns: i64::MAX,
            ..Default::default()
        };
        if mad_ms == 0 {
            st.shape |= shape::MAD_ZERO;
        }
        let mut h = Hist {
            est,
            m,
            rng,
            confirmed: false,
            now_us: 1_000_000,
            after_pc: false,
            st,
            verbose,
            tracing,
            trace: Vec::new(),
            fail: None,
            ops: 0,
        };
        // RFC 9002 5.3: smoothed_rtt = kInitialRtt, rttvar = kInitialRtt / 2
        if h.est.smoothed_rtt() != initial || h.est.rttvar() != initial / 2 {
            h.set_fail(
                "initial_values",
                format!(
                    "initial rtt {initial:?}: smoothed {:?} rttvar {:?}",
                    h.est.smoothed_rtt(),
                    h.est.rttvar()
                ),
            );
        }
        if h.est.max_ack_delay() != Duration::from_millis(mad_ms) {
            h.set_fail(
                "max_ack_delay",
                format!("max_ack_delay {:?} != {mad_ms} ms", h.est.max_ack_delay()),
            );
        }
        h.check_derived();
        h
    }

    fn log(&mut self, s: String) {
        if self.verbose {
            eprintln!("[{:>5}] {}", self.ops, s);
        }
        if self.trace.len() >= 16 {
            self.trace.remove(0);
        }
        self.trace.push(s);
    }

    fn set_fail(&mut self, sig: &str, what: String) {
        if self.fail.is_none() {
            if self.verbose {
                eprintln!("VIOLATION rtt.{sig}: {what}");
            }
            self.fail = Some(Fail::new(format!("rtt.{sig}"), what));
        }
    }

    fn gen_duration(&mut self, around: f64) -> Duration {
        let n = match self.rng.below(12) {
            0 => 0,
            1 => self.rng.range(1, 999),                 // below the 1 us resolution
            2 => 1_000,                                  // exactly MIN_RTT
            3 => self.rng.range(1_000, 100_000),         // LAN
            4..=7 => {
                // near the current estimate
                let a = around.max(1000.0) as u64;
                self.rng.range(a / 2, a + a / 2 + 1)
            }
            8..=9 => self.rng.range(100_000, 400_000_000), // WAN
            10 => self.rng.range(400_000_000, 60_000_000_000), // pathological
            _ => (self.rng.range(1, 2000)) * 1_000_000,  // whole milliseconds
        };
        if n >= 10_000_000_000 {
            self.st.shape |= shape::HUGE;
        }
        Duration::from_nanos(n)
    }

    fn op_sample(&mut self) {
        if !self.confirmed && self.rng.chance(1, 12) {
            self.confirmed = true;
            self.st.shape |= shape::CONFIRMED;
        }
        let space = if self.confirmed {
            if self.rng.chance(1, 30) {
                PacketNumberSpace::Handshake
            } else {
                PacketNumberSpace::ApplicationData
            }
        } else {
            match self.rng.below(3) {
                0 => PacketNumberSpace::Initial,
                1 => PacketNumberSpace::Handshake,
                _ => PacketNumberSpace::ApplicationData,
            }
        };
        let prev_srtt = self.est.smoothed_rtt();
        let prev_var = self.est.rttvar();
        let prev_min = self.est.min_rtt();
        let mut sample = self.gen_duration(ns(prev_srtt));
        let mut ack_delay = match self.rng.below(8) {
            0 => Duration::ZERO,
            1 => self.est.max_ack_delay(),
            2 => self.est.max_ack_delay() + Duration::from_nanos(self.rng.range(1, 50_000_000)),
            3 => self.gen_duration(ns(prev_srtt)),
            4 => Duration::from_nanos(self.rng.range(0, 30_000_000)),
            _ => Duration::from_micros(self.rng.range(0, 25_000)),
        };
        // boundary: latest_rtt == min_rtt + ack_delay exactly
        if self.rng.chance(1, 16) && self.m.has_sample {
            let eff = if self.confirmed {
                ack_delay.min(self.est.max_ack_delay())
            } else {
                ack_delay
            };
            sample = prev_min + eff;
            if self.rng.chance(1, 3) {
                sample += Duration::from_nanos(1);
            } else if self.rng.chance(1, 2) && sample > Duration::from_nanos(1001) {
                sample -= Duration::from_nanos(1);
            }
            if !self.confirmed {
                ack_delay = eff;
            }
        }
        self.now_us += self.rng.range(1, 50_000);
        let now = ts(self.now_us);
        self.est
            .update_rtt(ack_delay, sample, now, self.confirmed, space);
        self.st.samples += 1;

        // ---- oracle -------------------------------------------------------------------
        let mut latest = ns(sample);
        if latest < 1000.0 {
            latest = 1000.0; // documented MIN_RTT floor
            self.st.sub_us += 1;
            self.st.shape |= shape::SUB_US;
        }
        let i_latest = ns(self.est.latest_rtt());
        let i_min = ns(self.est.min_rtt());
        let i_srtt = ns(self.est.smoothed_rtt());
        let i_var = ns(self.est.rttvar());
        let (confirmed, n_srtt, n_var, n_min, n_latest) = (
            self.confirmed,
            self.est.smoothed_rtt(),
            self.est.rttvar(),
            self.est.min_rtt(),
            self.est.latest_rtt(),
        );
        // formatted lazily: only for the trace and for failure messages
        let describe = move || {
            format!(
                "sample={sample:?} ack_delay={ack_delay:?} confirmed={confirmed} space={space:?} prev(srtt={prev_srtt:?} var={prev_var:?} min={prev_min:?}) -> srtt={n_srtt:?} var={n_var:?} min={n_min:?} latest={n_latest:?}"
            )
        };
        if self.tracing {
            let d = describe();
            self.log(d);
        }

        if i_latest != latest {
            self.set_fail("latest_rtt", format!("latest_rtt != sample: {}", describe()));
            return;
        }
        let seeding = !self.m.has_sample || self.after_pc;

        // min_rtt: RFC 9002 5.2
        let want_min = if seeding { latest } else { self.m.min.min(latest) };
        // after persistent congestion re-seeding min_rtt is a SHOULD: keeping the old minimum
        // (if lower) is also conformant
        let alt_min = if self.after_pc {
            self.m.min.min(latest)
        } else {
            want_min
        };
        if i_min != want_min && i_min != alt_min {
            self.set_fail(
                "min_rtt",
                format!("min_rtt {i_min} ns, expected {want_min} ns: {}", describe()),
            );
            return;
        }
        if i_min > latest {
            self.set_fail("min_rtt_above_sample", format!("min_rtt > latest sample: {}", describe()));
            return;
        }
        self.m.min = i_min;
        self.m.latest = latest;

        // candidates permitted by RFC 9002 5.3 / A.7
        let mut cands: Vec<(Cand, u32)> = Vec::new(); // (candidate, note bits)
        const N_CLAMP: u32 = 1;
        const N_EQ: u32 = 2;
        const N_INIT0: u32 = 4;
        const N_NOSUB: u32 = 8;
        const N_SUB: u32 = 16;
        if seeding {
            cands.push((Cand::Seed, 0));
        }
        if self.m.has_sample {
            let mut delays: Vec<(f64, u32)> = vec![(ns(ack_delay), 0)];
            if space.is_initial() && ack_delay > Duration::ZERO {
                delays.push((0.0, N_INIT0)); // MAY ignore ack delay for Initial packets
            }
            for (d, note) in delays {
                let mut eff: Vec<(f64, u32)> = Vec::new();
                let clamped = d.min(self.m.max_ack_delay);
                if self.confirmed {
                    eff.push((clamped, if clamped < d { N_CLAMP } else { 0 })); // MUST
                } else {
                    eff.push((d, 0)); // SHOULD ignore max_ack_delay
                    if clamped < d {
                        eff.push((clamped, N_CLAMP));
                    }
                }
                for (e, n2) in eff {
                    let note = note | n2;
                    let floor = i_min + e;
                    if latest > floor {
                        for a7 in [true, false] {
                            cands.push((Cand::Update { adjusted: latest - e, a7 }, note | N_SUB));
                        }
                    } else if latest == floor {
                        for a7 in [true, false] {
                            cands.push((
                                Cand::Update { adjusted: latest - e, a7 },
                                note | N_EQ | N_SUB,
                            ));
                            cands.push((
                                Cand::Update { adjusted: latest, a7 },
                                note | N_EQ | N_NOSUB,
                            ));
                        }
                        if !self.confirmed {
                            cands.push((Cand::Ignore, note | N_EQ));
                        }
                    } else {
                        // MUST NOT subtract
                        for a7 in [true, false] {
                            cands.push((Cand::Update { adjusted: latest, a7 }, note | N_NOSUB));
                        }
                        if !self.confirmed {
                            cands.push((Cand::Ignore, note)); // MAY ignore the sample
                        }
                    }
                }
            }
        }

        // LOCAL: which permitted rule, applied to the estimator's own previous values, explains
        // the new values?
        let (ps, pv) = (ns(prev_srtt), ns(prev_var));
        let mut hit: Option<(Cand, u32)> = None;
        let mut best = f64::MAX;
        let mut a7_hit = false;
        let mut o53_hit = false;
        // adjusted samples of every rule that explains the step (several can, at tiny scales)
        let (mut m_lo, mut m_hi) = (f64::MAX, f64::MIN);
        for (c, note) in &cands {
            let (es, ev) = match c {
                Cand::Seed => (latest, (latest / 2.0).floor()),
                Cand::Ignore => (ps, pv),
                Cand::Update { adjusted, a7 } => ewma(ps, pv, *adjusted, *a7),
            };
            if (i_srtt - es).abs() <= 8.0 && (i_var - ev).abs() <= 4.0 {
                if let Cand::Update { a7, adjusted } = c {
                    if *a7 {
                        a7_hit = true;
                    } else {
                        o53_hit = true;
                    }
                    m_lo = m_lo.min(*adjusted);
                    m_hi = m_hi.max(*adjusted);
                }
                let d = (i_srtt - es).abs() + (i_var - ev).abs();
                if d < best {
                    best = d;
                    hit = Some((*c, *note));
                }
            }
        }
        let Some((cand, note)) = hit else {
            self.set_fail(
                "update_not_rfc9002",
                format!("no update rule permitted by RFC 9002 5.3/A.7 explains the new values within 8/4 ns: {}", describe()),
            );
            return;
        };
        match cand {
            Cand::Seed => {
                self.st.seeded += 1;
                if self.after_pc {
                    self.st.pc_reseed += 1;
                }
                self.m.srtt = latest;
                self.m.rttvar = latest / 2.0;
                self.m.lo = latest;
                self.m.hi = latest;
            }
            Cand::Ignore => {
                self.st.ignored += 1;
                self.st.shape |= shape::PRE_CONFIRM_IGNORED;
            }
            Cand::Update { adjusted, a7 } => {
                match (a7_hit, o53_hit) {
                    (true, true) => self.st.order_indistinguishable += 1,
                    (true, false) => self.st.order_a7 += 1,
                    _ => self.st.order_53 += 1,
                }
                // GLOBAL model follows the same permitted choice from its own state
                let (s, v) = ewma(self.m.srtt, self.m.rttvar, adjusted, a7);
                self.m.srtt = s;
                self.m.rttvar = v;
                self.m.lo = self.m.lo.min(adjusted).min(m_lo);
                self.m.hi = self.m.hi.max(adjusted).max(m_hi);
            }
        }
        if note & N_CLAMP != 0 {
            self.st.ack_delay_clamped += 1;
            self.st.shape |= shape::CLAMPED;
        }
        if note & N_EQ != 0 {
            self.st.equality_edge += 1;
            self.st.shape |= shape::EQUALITY;
        }
        if note & N_INIT0 != 0 {
            self.st.initial_ack_delay_ignored += 1;
            self.st.shape |= shape::INITIAL_SPACE;
        }
        if note & N_NOSUB != 0 && matches!(cand, Cand::Update { .. }) {
            self.st.ack_delay_not_subtracted += 1;
            self.st.shape |= shape::NOT_SUBTRACTED;
        }
        if note & N_SUB != 0 && matches!(cand, Cand::Update { .. }) {
            self.st.ack_delay_subtracted += 1;
        }
        self.m.has_sample = true;
        self.after_pc = false;

        // GLOBAL drift
        if (i_srtt - self.m.srtt).abs() > 64.0 || (i_var - self.m.rttvar).abs() > 96.0 {
            self.set_fail(
                "drift_from_transcription",
                format!(
                    "estimator (srtt {i_srtt} var {i_var}) drifted from the RFC transcription (srtt {:.1} var {:.1}): {}",
                    self.m.srtt, self.m.rttvar, describe()
                ),
            );
            return;
        }
        // smoothed_rtt within the range of the (adjusted) samples
        if i_srtt < self.m.lo - 64.0 || i_srtt > self.m.hi + 1.0 {
            self.set_fail(
                "smoothed_outside_sample_range",
                format!(
                    "smoothed_rtt {i_srtt} ns outside [{}, {}] of adjusted samples: {}",
                    self.m.lo, self.m.hi, describe()
                ),
            );
            return;
        }
        self.check_derived();
    }

    /// PTO period, loss time threshold, persistent congestion threshold from the current values
    fn check_derived(&mut self) {
        let srtt = ns(self.est.smoothed_rtt());
        let var = ns(self.est.rttvar());
        let latest = ns(self.est.latest_rtt());
        let mad = ns(self.est.max_ack_delay());

        // RFC 9002 6.1.2: max(kTimeThreshold * max(smoothed_rtt, latest_rtt), kGranularity)
        let thr = (1.125 * srtt.max(latest)).max(GRANULARITY_NS);
        let i_thr = ns(self.est.loss_time_threshold());
        self.st.thr_checks += 1;
        if (i_thr - thr).abs() > 1.0 || i_thr < GRANULARITY_NS {
            self.set_fail(
                "loss_time_threshold",
                format!(
                    "loss_time_threshold {i_thr} ns, RFC 9002 6.1.2 gives {thr} ns (srtt {srtt} latest {latest})"
                ),
            );
            return;
        }

        // RFC 9002 6.2.1: PTO = smoothed_rtt + max(4*rttvar, kGranularity) + max_ack_delay
        for space in [
            PacketNumberSpace::Initial,
            PacketNumberSpace::Handshake,
            PacketNumberSpace::ApplicationData,
        ] {
            let k = self.rng.below(11) as u32;
            let backoff = 1u32 << k;
            self.st.max_backoff = self.st.max_backoff.max(backoff);
            let base = srtt
                + (4.0 * var).max(GRANULARITY_NS)
                + if space.is_application_data() { mad } else { 0.0 };
            let exact = (base * backoff as f64).max(GRANULARITY_NS);
            let got = ns(self.est.pto_period(backoff, space));
            self.st.pto_checks += 1;
            let shortfall = exact - got;
            self.st.max_pto_shortfall_ns = self.st.max_pto_shortfall_ns.max(shortfall as i64);
            if got < GRANULARITY_NS || shortfall < -1.0 || shortfall > 6_000.0 * backoff as f64 {
                self.set_fail(
                    "pto_period",
                    format!(
                        "pto_period(backoff {backoff}, {space:?}) = {got} ns, RFC 9002 6.2.1 gives {exact} ns (srtt {srtt} rttvar {var} max_ack_delay {mad})"
                    ),
                );
                return;
            }
            // doubling: exact in the estimator's microsecond arithmetic
            if backoff < (1 << 20) {
                let twice = ns(self.est.pto_period(backoff * 2, space));
                if twice != 2.0 * got {
                    self.set_fail(
                        "pto_not_doubling",
                        format!(
                            "pto_period(backoff {}) = {twice} ns is not twice pto_period(backoff {backoff}) = {got} ns",
                            backoff * 2
                        ),
                    );
                    return;
                }
            }
        }

        // RFC 9002 7.6.1 (not part of the C09 statement: observed only)
        let pc_exact = (srtt + (4.0 * var).max(GRANULARITY_NS) + mad) * 3.0;
        let pc_got = ns(self.est.persistent_congestion_threshold());
        let short_ms = ((pc_exact - pc_got) / MS).ceil() as i64;
        self.st.max_pc_threshold_shortfall_ms = self.st.max_pc_threshold_shortfall_ms.max(short_ms);
    }

    fn op_persistent_congestion(&mut self) {
        self.est.on_persistent_congestion();
        self.after_pc = true;
        self.st.shape |= shape::PC;
        trace!(self, "on_persistent_congestion");
        // nothing observable may change until the next sample
        let (s, v, m) = (
            ns(self.est.smoothed_rtt()),
            ns(self.est.rttvar()),
            ns(self.est.min_rtt()),
        );
        if (s - self.m.srtt).abs() > 64.0 || (v - self.m.rttvar).abs() > 96.0 || m != self.m.min {
            self.set_fail(
                "persistent_congestion_changed_estimates",
                format!("on_persistent_congestion changed srtt/rttvar/min_rtt immediately: {s} {v} {m}"),
            );
        }
        if self.est.first_rtt_sample().is_some() {
            // the marker is how recovery::Manager learns that no sample exists since the event
            self.set_fail(
                "persistent_congestion_marker",
                "first_rtt_sample still set after on_persistent_congestion".into(),
            );
        }
    }

    fn op_loss_detect(&mut self) {
        let thr = self.est.loss_time_threshold();
        let thr_us = thr.as_micros() as u64;
        let sent_us = self.now_us;
        // elapsed time: around the threshold, far below, far above, inside the 1 ms band
        let elapsed_us = match self.rng.below(8) {
            0 => 0,
            1 => self.rng.range(0, thr_us / 2),
            2 => thr_us.saturating_sub(self.rng.range(0, 1000)),
            3 => thr_us + self.rng.range(0, 1000),
            4 => thr_us.saturating_sub(self.rng.range(1000, 3000)),
            5 => thr_us,
            6 => thr_us.saturating_sub(1001),
            _ => self.rng.range(0, 2 * thr_us + 10),
        };
        let now_us = sent_us + elapsed_us;
        let pn_v = self.rng.range(0, 1 << 20);
        let gap = match self.rng.below(6) {
            0 => 1,
            1 => 2,
            2 => 3,
            3 => 4,
            _ => self.rng.range(1, 50),
        };
        let space = PacketNumberSpace::ApplicationData;
        let pn = space.new_packet_number(VarInt::new(pn_v).unwrap());
        let largest = space.new_packet_number(VarInt::new(pn_v + gap).unwrap());
        let out = loss::detect(
            thr,
            ts(sent_us),
            loss::K_PACKET_THRESHOLD,
            pn,
            largest,
            ts(now_us),
        );
        self.st.loss_checks += 1;
        // RFC 9002 6.1: lost iff gap >= kPacketThreshold(3) or sent at least the time threshold ago
        let srtt = ns(self.est.smoothed_rtt());
        let latest = ns(self.est.latest_rtt());
        let thr_exact_ns = (1.125 * srtt.max(latest)).max(GRANULARITY_NS);
        let elapsed_ns = elapsed_us as f64 * 1000.0;
        let margin = elapsed_ns - thr_exact_ns; // >= 0: time threshold met
        trace!(self, 
            "loss::detect gap={gap} elapsed={elapsed_us}us thr={thr:?} -> {out:?}"
        );
        match out {
            loss::Outcome::Lost => {
                if gap >= 3 {
                    self.st.loss_lost_pkt += 1;
                    self.st.shape |= shape::LOSS_PKT;
                } else if margin >= -1000.0 {
                    // (1 us slack: Timestamp resolution)
                    self.st.loss_lost_time += 1;
                    self.st.shape |= shape::LOSS_TIME;
                    self.st.min_time_margin_ns = self.st.min_time_margin_ns.min(margin as i64);
                } else if margin > -(GRANULARITY_NS + 1000.0) {
                    // timer granularity band: declared up to 1 ms early by design
                    self.st.loss_early_band += 1;
                    self.st.min_time_margin_ns = self.st.min_time_margin_ns.min(margin as i64);
                } else {
                    self.set_fail(
                        "unsound_loss_declaration",
                        format!(
                            "loss::detect declared a packet lost with packet gap {gap} < 3 and only {elapsed_us} us elapsed; time threshold max(9/8*max(srtt,latest),1ms) = {thr_exact_ns} ns"
                        ),
                    );
                }
            }
            loss::Outcome::NotLostYet { lost_time } => {
                self.st.loss_not_yet += 1;
                if gap >= 3 || margin >= 1000.0 {
                    // not a soundness issue (the property only forbids early declarations)
                    self.st.loss_not_declared += 1;
                }
                let want = ts(sent_us) + thr;
                if lost_time != want {
                    self.set_fail(
                        "lost_time",
                        format!("NotLostYet.lost_time {lost_time} != time_sent + threshold {want}"),
                    );
                }
            }
        }
    }

    /// consecutive PTO expiries: the period must double each time; `Pto` must not fire early
    fn op_pto_chain(&mut self) {
        let space = match self.rng.below(3) {
            0 => PacketNumberSpace::Initial,
            1 => PacketNumberSpace::Handshake,
            _ => PacketNumberSpace::ApplicationData,
        };
        let mut pto = Pto::default();
        let mut backoff: u32 = 1; // path::INITIAL_PTO_BACKOFF
        let expiries = self.rng.range(1, 8);
        let mut prev_period: Option<Duration> = None;
        self.st.pto_chains += 1;
        self.st.shape |= shape::PTO_CHAIN;
        for _ in 0..expiries {
            let period = self.est.pto_period(backoff, space);
            if let Some(p) = prev_period {
                if period != p * 2 {
                    self.set_fail(
                        "pto_not_doubling",
                        format!("consecutive PTO expiry: period {period:?} after {p:?} is not double"),
                    );
                    return;
                }
            }
            if period < K_GRANULARITY {
                self.set_fail("pto_below_granularity", format!("pto period {period:?} < 1 ms"));
                return;
            }
            prev_period = Some(period);
            let base_us = self.now_us;
            pto.update(ts(base_us), period);
            let deadline_us = base_us + period.as_micros() as u64;
            if pto.next_expiration() != Some(ts(deadline_us)) {
                self.set_fail(
                    "pto_timer_deadline",
                    format!(
                        "Pto armed for {:?}, expected base + period = {}",
                        pto.next_expiration(),
                        ts(deadline_us)
                    ),
                );
                return;
            }
            // poll before the deadline: must stay pending (outside the 1 ms granularity band)
            if period.as_micros() as u64 > 1001 && self.rng.chance(2, 3) {
                let early_us = if self.rng.chance(1, 2) {
                    deadline_us - 1001
                } else {
                    self.rng.range(base_us, deadline_us - 1001)
                };
                if pto.on_timeout(true, ts(early_us)) != Poll::Pending {
                    self.set_fail(
                        "pto_fired_early",
                        format!(
                            "Pto::on_timeout fired {} us before the PTO deadline (period {period:?})",
                            deadline_us - early_us
                        ),
                    );
                    return;
                }
            }
            let in_flight = self.rng.chance(2, 3);
            // inside the band either result is fine; at the deadline it must fire
            if self.rng.chance(1, 4) {
                let t = deadline_us - self.rng.range(1, 999).min(period.as_micros() as u64);
                if pto.on_timeout(in_flight, ts(t)).is_ready() {
                    self.st.pto_early_band += 1;
                }
            }
            let fire_us = deadline_us + if self.rng.chance(1, 2) { 0 } else { self.rng.range(0, 5000) };
            let armed = pto.next_expiration().is_some();
            let r = pto.on_timeout(in_flight, ts(fire_us));
            if armed && !r.is_ready() {
                self.set_fail(
                    "pto_did_not_fire",
                    format!("Pto::on_timeout pending at/after its deadline (period {period:?})"),
                );
                return;
            }
            self.st.pto_expiries += 1;
            // RFC 9002 6.2.4: one or two probes
            let want = if in_flight { 2 } else { 1 };
            let tx = pto.transmissions();
            if tx == 0 || tx > 2 || (armed && tx != want) {
                self.set_fail(
                    "pto_probe_count",
                    format!("{tx} probe transmissions requested after PTO expiry (packets_in_flight={in_flight})"),
                );
                return;
            }
            for _ in 0..tx {
                pto.on_transmit_once();
            }
            if pto.transmissions() != 0 {
                self.set_fail("pto_probe_count", "probe count did not return to 0".into());
                return;
            }
            self.now_us = fire_us;
            // RFC 9002 6.2.1: "the PTO period ... is doubled" on each expiry (path::Path does this
            // in s2n-quic-transport; the harness plays that role)
            backoff *= 2;
            self.st.max_backoff = self.st.max_backoff.max(backoff);
        }
        trace!(self, "pto chain space={space:?} expiries={expiries}");
    }

    fn step(&mut self) {
        self.ops += 1;
        match self.rng.below(100) {
            0..=69 => self.op_sample(),
            70..=84 => self.op_loss_detect(),
            85..=94 => self.op_pto_chain(),
            95..=97 => self.op_persistent_congestion(),
            _ => {
                self.now_us += self.rng.range(1, 5_000_000);
            }
        }
    }
}

struct Outcome {
    fail: Option<Fail>,
    st: Stats,
    trace: Vec<String>,
    ops: u64,
}

fn drive(rng: Rng, len: u64, verbose: bool, tracing: bool) -> Outcome {
    let mut h = Hist::new(rng, verbose, tracing);
    while h.ops < len && h.fail.is_none() {
        h.step();
    }
    Outcome {
        fail: h.fail,
        st: h.st,
        trace: h.trace,
        ops: h.ops,
    }
}

pub fn run(p: &Params, sum: &mut Summary) {
    let range: Box<dyn Iterator<Item = u64>> = match p.only {
        Some(i) => Box::new(i..=i),
        None => Box::new(0..p.iters),
    };
    let mut total_ops = 0u64;
    let mut acc = crate::common::Acc::default();
    for index in range {
        let mut rng = Rng::new(mix(p.seed ^ 0xC09C_09C0, index));
        let len = if p.miri {
            rng.range(8, 30)
        } else {
            rng.range(100, 1200)
        };
        if p.verbose {
            eprintln!("history {index}: ops={len}");
        }
        let (verbose, tracing) = (p.verbose, p.verbose || !cfg!(miri));
        let res = guarded(move || drive(rng, len, verbose, tracing));
        sum.evaluations += 1;
        let replay = json!({"check": "rtt", "seed": p.seed, "history": index, "mode": p.mode(), "ops": len});
        match res {
            Err(Caught::Library { loc, msg }) => sum.violation(Violation {
                property: "C09".into(),
                signature: format!("rtt.{}", panic_sig(&loc, &msg)),
                what: format!("library panic at {loc}: {msg}"),
                replay,
            }),
            Err(Caught::Harness { loc, msg }) => sum
                .inconclusive
                .push(format!("rtt history {index}: harness panic at {loc}: {msg}")),
            Ok(o) => {
                total_ops += o.ops;
                let s = &o.st;
                for (k, v) in [
                    ("rtt_samples", s.samples),
                    ("samples_below_1us_floored", s.sub_us),
                    ("first_sample_seedings", s.seeded),
                    ("reseeded_after_persistent_congestion", s.pc_reseed),
                    ("samples_ignored_before_confirmation", s.ignored),
                    ("ack_delay_subtracted", s.ack_delay_subtracted),
                    ("ack_delay_not_subtracted(min_rtt_floor)", s.ack_delay_not_subtracted),
                    ("ack_delay_clamped_to_max_ack_delay", s.ack_delay_clamped),
                    ("equality_edge(latest==min_rtt+ack_delay)", s.equality_edge),
                    ("initial_space_ack_delay_ignored", s.initial_ack_delay_ignored),
                    ("rttvar_order.appendix_A7", s.order_a7),
                    ("rttvar_order.section_5_3_as_published", s.order_53),
                    ("rttvar_order.indistinguishable", s.order_indistinguishable),
                    ("pto_period_checks", s.pto_checks),
                    ("pto_chains", s.pto_chains),
                    ("pto_expiries", s.pto_expiries),
                    ("pto_fired_inside_1ms_band", s.pto_early_band),
                    ("loss_detect_checks", s.loss_checks),
                    ("loss.lost_by_packet_threshold", s.loss_lost_pkt),
                    ("loss.lost_by_time_threshold", s.loss_lost_time),
                    ("loss.lost_inside_1ms_granularity_band", s.loss_early_band),
                    ("loss.not_lost_yet", s.loss_not_yet),
                    ("loss.not_declared_although_threshold_met", s.loss_not_declared),
                    ("loss_time_threshold_checks", s.thr_checks),
                ] {
                    acc.count("", k, v);
                }
                if s.min_time_margin_ns != i64::MAX {
                    acc.min("", "loss.min_time_margin_ns", s.min_time_margin_ns);
                }
                acc.max("", "pto.max_shortfall_vs_exact_ns", s.max_pto_shortfall_ns);
                acc.max("", "pto.max_backoff", s.max_backoff as i64);
                acc.max("", "persistent_congestion_threshold.max_shortfall_ms(observed_only)",
                    s.max_pc_threshold_shortfall_ms,
                );
                let nontrivial = s.samples >= 2 && (s.loss_checks > 0 || s.pto_chains > 0);
                if nontrivial {
                    sum.signatures.insert(mix(0xC09, s.shape as u64));
                } else {
                    sum.trivial += 1;
                }
                if sum.samples.len() < 4 {
                    sum.sample(json!({"history": index, "ops": o.ops, "shape_bits": format!("{:#x}", s.shape), "last_ops": o.trace}));
                }
                if let Some(f) = o.fail {
                    let mut replay = replay;
                    replay["witness"] = json!(o.trace);
                    sum.violation(Violation {
                        property: "C09".into(),
                        signature: f.sig,
                        what: f.what,
                        replay,
                    });
                }
            }
        }
    }
    acc.flush(sum);
    sum.count("operations", total_ops);
    if total_ops == 0 && p.only.is_none() && sum.violations.is_empty() {
        sum.inconclusive.push("rtt: no operation was run".into());
    }
}
