//! vq-cc: component monitors for congestion control (C10), RTT/PTO/loss arithmetic (C09)
//! and 1-RTT key sets (C15).  Every check drives PUBLIC APIs of s2n-quic-core with seeded
//! operation histories and evaluates an independent oracle after every call.
//!
//! usage: vq-cc --check cc|rtt|keys --seed S --iters N [--mode native|miri] [--replay f.json]

mod cc;
mod common;
mod keys;
mod rtt;

use vq_util::{arg_str, arg_u64, parse_args, Summary, Value};

fn main() {
    let args = parse_args();
    let mut check = arg_str(&args, "check", "cc").to_string();
    let mut seed = arg_u64(&args, "seed", 1);
    let mut mode = arg_str(&args, "mode", "native").to_string();
    let mut only: Option<u64> = None;
    let verbose_flag = args.contains_key("verbose");
    let mut strict_appendix_b = args.contains_key("strict-appendix-b");
    let mut avoid_known = args.contains_key("avoid-known");
    let mut huge_initial_window = args.contains_key("huge-initial-window");

    if let Some(path) = args.get("replay") {
        let text = match std::fs::read_to_string(path) {
            Ok(t) => t,
            Err(e) => {
                eprintln!("vq-cc: cannot read replay file {path}: {e}");
                std::process::exit(3);
            }
        };
        let v: Value = match serde_parse(&text) {
            Some(v) => v,
            None => {
                eprintln!("vq-cc: replay file {path} is not JSON");
                std::process::exit(3);
            }
        };
        // accept either the bare replay object or a violation object containing it
        let r = if v.get("replay").is_some() { v["replay"].clone() } else { v };
        if let Some(c) = r.get("check").and_then(|c| c.as_str()) {
            check = c.to_string();
        }
        if let Some(s) = r.get("seed").and_then(|c| c.as_u64()) {
            seed = s;
        }
        if let Some(m) = r.get("mode").and_then(|c| c.as_str()) {
            mode = m.to_string();
        }
        only = r.get("history").and_then(|c| c.as_u64());
        let flag = |k: &str| r.get(k).and_then(|c| c.as_bool()).unwrap_or(false);
        strict_appendix_b |= flag("strict_appendix_b");
        avoid_known |= flag("avoid_known");
        huge_initial_window |= flag("huge_initial_window");
        if only.is_none() {
            eprintln!("vq-cc: replay object lacks `history`");
            std::process::exit(3);
        }
    }

    let miri = mode == "miri";
    let default_iters = if miri { 300 } else { 1000 };
    let iters = arg_u64(&args, "iters", default_iters);

    common::install_panic_hook();

    let p = common::Params {
        seed,
        iters,
        miri,
        only,
        verbose: verbose_flag || only.is_some(),
        strict_appendix_b,
        avoid_known,
        huge_initial_window,
    };

    let mut sum = Summary::default();
    match check.as_str() {
        "cc" => cc::run(&p, &mut sum),
        "rtt" => rtt::run(&p, &mut sum),
        "keys" => keys::run(&p, &mut sum),
        other => {
            eprintln!("vq-cc: unknown --check {other} (cc|rtt|keys)");
            std::process::exit(3);
        }
    }
    sum.print();
}

fn serde_parse(text: &str) -> Option<Value> {
    // vq_util re-exports serde_json's Value/json! but not from_str; Value implements FromStr
    text.parse::<Value>().ok()
}
