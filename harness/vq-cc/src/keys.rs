//! C15 (component part): two `KeySet<K>` instances ("A", "B") joined by a seeded reordering /
//! duplicating / dropping channel.  `K` is an instrumented 1-RTT key written here: every key
//! carries its generation, ciphertexts are tagged with (generation, packet number, MAC), a key
//! only opens packets sealed with its own generation, limits are tiny.  Packets are really
//! encoded (`Short::encode_packet` through `KeySet::encrypt_packet`), header protected, decoded
//! (`ProtectedPacket::decode`, `unprotect`) and opened through `KeySet::decrypt_packet`.
//!
//! Oracle after every step (RFC 9001 section 6; nothing is taken from the KeySet's state):
//!  K1  per endpoint and key generation: packets sealed <= confidentiality limit
//!  K2  a refusal (`AeadLimitReached`) is only legitimate when the generation in use is exhausted
//!      and the endpoint could not move on (its own update is still unconfirmed); an endpoint
//!      whose current generation is confirmed must initiate an update instead (6.6)
//!  K3  generation(pn1) <= generation(pn2) for pn1 < pn2 of one endpoint (6.4); an endpoint never
//!      seals with a generation older than one it has already opened from the peer (6.2) nor more
//!      than one ahead of what the peer has confirmed (6.1)
//!  K4  a genuine packet of the receiver's current receive generation always opens; one of the
//!      next generation opens unless the receiver is inside the deferral window after an update
//!      (6.3/6.5: either accepted); one of the previous generation opens while the old keys are
//!      retained, i.e. until `on_timeout` ran at/after the deadline handed to `decrypt_packet`
//!      (inside the 1 ms timer-granularity band either is accepted).  Every successful open used
//!      the key of the packet's own generation (enforced by the key itself)
//!  K5  `decrypt_packet` announces a key update (`Some(generation)`) exactly when the packet's
//!      generation is newer than anything opened before, and the announced number is that
//!      generation
//!  K6  forged packets never open; every failed open is counted and AEAD_LIMIT_REACHED is returned
//!      exactly from the failure that makes the count reach the integrity limit on, never earlier

use crate::common::{guarded, panic_sig, ts, Caught, Fail, Params};
use s2n_codec::{DecoderBufferMut, Encoder, EncoderBuffer};
use s2n_quic_core::{
    connection::{self, id::ConnectionInfo, ProcessingError},
    crypto::{
        self,
        application::{limited::Limits, KeySet},
        packet_protection, scatter, HeaderProtectionMask,
    },
    inet::SocketAddress,
    packet::{
        encoding::{PacketEncoder, PacketEncodingError},
        number::{PacketNumber, PacketNumberSpace},
        short::{Short, SpinBit},
        ProtectedPacket,
    },
    time::timer::Provider as _,
    varint::VarInt,
};
use std::{
    collections::BTreeMap,
    sync::{Arc, Mutex},
};
use vq_util::{json, mix, prf_fill, Rng, Summary, Violation};


/// formats and records a trace line only when tracing is on (off under Miri unless --verbose:
/// the witness of a Miri-mode history is regenerated natively with `--replay`)
macro_rules! trace {
    ($s:expr, $($arg:tt)*) => {
        if $s.tracing {
            let m = format!($($arg)*);
            $s.log(m);
        }
    };
}

const TAG_LEN: usize = 16;
const DCID: [u8; 8] = [0xd0, 0xd1, 0xd2, 0xd3, 0xd4, 0xd5, 0xd6, 0xd7];
const PAYLOAD_LEN: usize = 56;

// ---- instrumented key ---------------------------------------------------------------------

#[derive(Default)]
struct KeyLog {
    /// (owner, generation, packet number) of every seal
    sealed: Vec<(u8, u32, u64)>,
    /// (owner, generation of the key tried, packet number, opened?)
    opened: Vec<(u8, u32, u64, bool)>,
    derivations: u64,
}

struct TKey {
    owner: u8,
    gen: u32,
    conf_limit: u64,
    integ_limit: u64,
    log: Arc<Mutex<KeyLog>>,
}

fn mac(gen: u32, pn: u64, header: &[u8], body: &[u8]) -> u64 {
    let mut h = mix(0x5EC2_E7u64 ^ gen as u64, pn);
    for b in header.iter().chain(body.iter()) {
        h = (h ^ *b as u64).wrapping_mul(0x100000001b3);
    }
    mix(h, gen as u64)
}

fn keystream(gen: u32, pn: u64, i: usize) -> u8 {
    (mix(mix(gen as u64, pn), i as u64 >> 3) >> ((i & 7) * 8)) as u8
}

impl crypto::Key for TKey {
    fn decrypt(
        &self,
        packet_number: u64,
        header: &[u8],
        payload: &mut [u8],
    ) -> Result<(), packet_protection::Error> {
        let ok = (|| {
            if payload.len() < TAG_LEN {
                return false;
            }
            let (body, tag) = payload.split_at_mut(payload.len() - TAG_LEN);
            let g = u32::from_be_bytes(tag[0..4].try_into().unwrap());
            let p = u32::from_be_bytes(tag[4..8].try_into().unwrap());
            let m = u64::from_be_bytes(tag[8..16].try_into().unwrap());
            if g != self.gen || p != packet_number as u32 {
                return false;
            }
            if m != mac(self.gen, packet_number, header, body) {
                return false;
            }
            for (i, b) in body.iter_mut().enumerate() {
                *b ^= keystream(self.gen, packet_number, i);
            }
            true
        })();
        self.log
            .lock()
            .unwrap()
            .opened
            .push((self.owner, self.gen, packet_number, ok));
        if ok {
            Ok(())
        } else {
            Err(packet_protection::Error::DECRYPT_ERROR)
        }
    }

    fn encrypt(
        &mut self,
        packet_number: u64,
        header: &[u8],
        payload: &mut scatter::Buffer,
    ) -> Result<(), packet_protection::Error> {
        let buffer = payload.flatten();
        let m = {
            let (body, _) = buffer.split_mut();
            for (i, b) in body.iter_mut().enumerate() {
                *b ^= keystream(self.gen, packet_number, i);
            }
            mac(self.gen, packet_number, header, body)
        };
        buffer.write_slice(&self.gen.to_be_bytes());
        buffer.write_slice(&(packet_number as u32).to_be_bytes());
        buffer.write_slice(&m.to_be_bytes());
        self.log
            .lock()
            .unwrap()
            .sealed
            .push((self.owner, self.gen, packet_number));
        Ok(())
    }

    fn tag_len(&self) -> usize {
        TAG_LEN
    }
    fn aead_confidentiality_limit(&self) -> u64 {
        self.conf_limit
    }
    fn aead_integrity_limit(&self) -> u64 {
        self.integ_limit
    }
    fn cipher_suite(&self) -> crypto::tls::CipherSuite {
        crypto::tls::CipherSuite::Unknown
    }
}

impl crypto::OneRttKey for TKey {
    fn derive_next_key(&self) -> Self {
        self.log.lock().unwrap().derivations += 1;
        TKey {
            owner: self.owner,
            gen: self.gen + 1,
            conf_limit: self.conf_limit,
            integ_limit: self.integ_limit,
            log: self.log.clone(),
        }
    }
}

/// header protection that really masks the first byte (key phase bit) and the packet number
struct THeaderKey;

impl crypto::HeaderKey for THeaderKey {
    fn opening_header_protection_mask(&self, sample: &[u8]) -> HeaderProtectionMask {
        [
            sample[0] ^ 0x5a,
            sample[1] ^ sample[5],
            sample[2],
            sample[3] ^ 0xc3,
            sample[4],
        ]
    }
    fn opening_sample_len(&self) -> usize {
        16
    }
    fn sealing_header_protection_mask(&self, sample: &[u8]) -> HeaderProtectionMask {
        self.opening_header_protection_mask(sample)
    }
    fn sealing_sample_len(&self) -> usize {
        16
    }
}
impl crypto::OneRttHeaderKey for THeaderKey {}

// ---- history --------------------------------------------------------------------------------

mod shape {
    pub const UPDATE: u32 = 1;
    pub const MANY_UPDATES: u32 = 1 << 1;
    pub const OLD_GEN_IN_RETENTION: u32 = 1 << 2;
    pub const OLD_GEN_AFTER_DISCARD: u32 = 1 << 3;
    pub const NEXT_GEN_IN_DEFERRAL: u32 = 1 << 4;
    pub const REFUSAL: u32 = 1 << 5;
    pub const FORGERY: u32 = 1 << 6;
    pub const INTEGRITY_LIMIT: u32 = 1 << 7;
    pub const DUPLICATE: u32 = 1 << 8;
    pub const REORDER: u32 = 1 << 9;
    pub const DROP: u32 = 1 << 10;
    pub const BOTH_INITIATE: u32 = 1 << 11;
    pub const PHASE_FLIP_FORGERY: u32 = 1 << 12;
    pub const FAR_GEN: u32 = 1 << 13;
    pub const TIMER: u32 = 1 << 14;
    pub const POST_LIMIT_GENUINE_ACCEPTED: u32 = 1 << 15;
}

struct Wire {
    from: usize,
    pn: u64,
    gen: u32,
    bytes: Vec<u8>,
    seq: u64,
}

struct Endpoint {
    ks: KeySet<TKey>,
    owner: u8,
    next_pn: u64,
    /// largest packet number opened from the peer (packet number expansion basis)
    largest_rx: Option<u64>,
    // ---- oracle shadow ----
    sealed: BTreeMap<u32, u64>,
    last_gen_sealed: Option<u32>,
    /// highest generation opened from the peer = current receive generation
    rx_gen: u32,
    /// deadline handed to decrypt_packet when rx_gen last advanced (old keys retained until an
    /// on_timeout at/after it)
    retain_deadline_us: Option<u64>,
    /// `Some(true)`: old keys surely gone / next keys surely derived; `None`: inside the 1 ms band
    timer_state: TimerState,
    fails: u64,
    limit_hit: bool,
}

#[derive(Clone, Copy, PartialEq, Debug)]
enum TimerState {
    /// no update yet or derivation done: current+next keys present, no old keys
    Settled,
    /// after an update: old keys retained, next keys not derived yet
    Retaining,
    /// on_timeout ran inside the granularity band before the deadline: either
    Unknown,
}

#[derive(Default)]
struct Stats {
    steps: u64,
    sealed: u64,
    delivered: u64,
    opened: u64,
    dropped: u64,
    duplicated: u64,
    reordered: u64,
    forgeries: u64,
    updates: u64,
    old_gen_in_retention: u64,
    old_gen_after_discard: u64,
    old_gen_band: u64,
    next_gen_in_deferral: u64,
    far_gen: u64,
    refusals: u64,
    integrity_closes: u64,
    timeouts: u64,
    post_limit_genuine_accepted: u64,
    suppressed_old_gen: u64,
    suppressed_sends: u64,
    max_gen: u32,
    max_sealed_per_gen: u64,
    shape: u32,
}

struct Hist {
    eps: [Endpoint; 2],
    log: Arc<Mutex<KeyLog>>,
    chan: Vec<Wire>,
    seq: u64,
    rng: Rng,
    now_us: u64,
    pto_us: u64,
    conf_limit: u64,
    integ_limit: u64,
    window: u64,
    forge_pct: u64,
    drop_pct: u64,
    reorder_pct: u64,
    st: Stats,
    verbose: bool,
    tracing: bool,
    trace: Vec<String>,
    fail: Option<Fail>,
    done: bool,
    avoid_known: bool,
    remote: SocketAddress,
}

fn pn_obj(v: u64) -> PacketNumber {
    PacketNumberSpace::ApplicationData.new_packet_number(VarInt::new(v).unwrap())
}

fn is_aead_limit(e: &ProcessingError) -> bool {
    match e {
        ProcessingError::ConnectionError(connection::Error::Transport { code, .. }) => {
            code.as_u64() == 0xf
        }
        _ => false,
    }
}

impl Hist {
    fn new(mut rng: Rng, miri: bool, verbose: bool, avoid_known: bool) -> Self {
        let conf_limit = if miri {
            rng.range(4, 8)
        } else {
            match rng.below(4) {
                0 => 40,
                1 => rng.range(8, 24),
                _ => rng.range(24, 96),
            }
        };
        let window = match rng.below(4) {
            0 => 1,
            1 => conf_limit / 2,
            _ => rng.range(1, (conf_limit / 2).max(1)),
        };
        let integ_limit = if miri {
            rng.range(2, 5)
        } else {
            match rng.below(4) {
                0 => 12,
                1 => rng.range(200, 2000), // practically never reached: long histories
                _ => rng.range(3, 24),
            }
        };
        let log = Arc::new(Mutex::new(KeyLog::default()));
        let mk = |owner: u8| {
            let mut limits = Limits::default();
            limits.key_update_window = window;
            let key = TKey {
                owner,
                gen: 0,
                conf_limit,
                integ_limit,
                log: log.clone(),
            };
            Endpoint {
                ks: KeySet::new(key, limits),
                owner,
                next_pn: 0,
                largest_rx: None,
                sealed: BTreeMap::new(),
                last_gen_sealed: None,
                rx_gen: 0,
                retain_deadline_us: None,
                timer_state: TimerState::Settled,
                fails: 0,
                limit_hit: false,
            }
        };
        let eps = [mk(0), mk(1)];
        // forgeries per 1000 steps
        let forge_pct = match rng.below(5) {
            0 => 0,
            1 => 2,
            2 => 8,
            3 => 30,
            _ => rng.range(1, 100),
        };
        Hist {
            eps,
            log,
            chan: Vec::new(),
            seq: 0,
            pto_us: rng.range(2_000, 120_000),
            now_us: 1_000_000,
            conf_limit,
            integ_limit,
            window,
            forge_pct,
            drop_pct: rng.range(0, 25),
            reorder_pct: rng.range(0, 60),
            rng,
            st: Stats::default(),
            verbose,
            tracing: verbose || !cfg!(miri),
            trace: Vec::new(),
            fail: None,
            done: false,
            avoid_known,
            remote: SocketAddress::default(),
        }
    }

    fn name(e: usize) -> char {
        if e == 0 {
            'A'
        } else {
            'B'
        }
    }

    fn log(&mut self, s: String) {
        if self.verbose {
            eprintln!("[{:>5}] t={} {}", self.st.steps, self.now_us, s);
        }
        if self.trace.len() >= 28 {
            self.trace.remove(0);
        }
        self.trace.push(format!("t={} {}", self.now_us, s));
    }

    fn set_fail(&mut self, sig: &str, what: String) {
        if self.fail.is_none() {
            if self.verbose {
                eprintln!("VIOLATION keys.{sig}: {what}");
            }
            self.fail = Some(Fail::new(format!("keys.{sig}"), what));
        }
    }

    // ---- seal -------------------------------------------------------------------------

    fn op_send(&mut self, e: usize) {
        if self.eps[e].limit_hit {
            return; // a closed connection sends nothing
        }
        if self.avoid_known {
            // steer away from known finding F2 (see README): for one retention period after an
            // endpoint promoted new keys its "next" slot still holds the PREVIOUS keys; if the
            // promoted generation is already inside its update window the next seal would go
            // there.  The endpoint stays quiet until its timer has derived the next keys.
            let ep = &self.eps[e];
            let used = ep.sealed.get(&ep.rx_gen).copied().unwrap_or(0);
            if ep.timer_state != TimerState::Settled && used + self.window > self.conf_limit {
                self.st.suppressed_sends += 1;
                return;
            }
        }
        let pn = self.eps[e].next_pn;
        // packet number truncation basis: the largest of our packet numbers the peer has opened
        // (everything opened counts as acknowledged), sometimes lagging
        let peer_has = self
            .chan_basis(e)
            .map(|b| if self.rng.chance(1, 4) { b.saturating_sub(self.rng.below(4)) } else { b })
            .unwrap_or(0)
            .min(pn);
        let mut payload = [0u8; PAYLOAD_LEN];
        prf_fill(mix(e as u64, 0xFA71), pn * PAYLOAD_LEN as u64, &mut payload);
        let mut buf = [0u8; 160];
        let total = buf.len();
        let sealed_before = self.log.lock().unwrap().sealed.len();
        let outcome: Result<usize, &'static str> = {
            let ep = &mut self.eps[e];
            let r = ep
                .ks
                .encrypt_packet(EncoderBuffer::new(&mut buf), |buffer, key, phase| {
                    Short {
                        spin_bit: SpinBit::Zero,
                        key_phase: phase,
                        destination_connection_id: &DCID[..],
                        packet_number: pn_obj(pn),
                        payload: &payload[..],
                    }
                    .encode_packet(key, &THeaderKey, pn_obj(peer_has), None, buffer)
                });
            match r {
                Ok((_protected, remaining)) => Ok(total - remaining.capacity()),
                Err(PacketEncodingError::AeadLimitReached(_)) => Err("limit"),
                Err(PacketEncodingError::PacketNumberTruncationError(_)) => Err("truncation"),
                Err(PacketEncodingError::InsufficientSpace(_)) => Err("space"),
                Err(PacketEncodingError::EmptyPayload(_)) => Err("empty"),
            }
        };
        match outcome {
            Ok(len) => {
                let (owner, gen, lpn) = {
                    let l = self.log.lock().unwrap();
                    if l.sealed.len() != sealed_before + 1 {
                        drop(l);
                        panic!("harness: expected exactly one seal per encrypt_packet");
                    }
                    *l.sealed.last().unwrap()
                };
                assert!(owner == self.eps[e].owner && lpn == pn, "harness: seal log mismatch");
                self.st.sealed += 1;
                self.st.max_gen = self.st.max_gen.max(gen);
                let (count, last, rx_gen) = {
                    let ep = &mut self.eps[e];
                    ep.next_pn += 1;
                    let c = ep.sealed.entry(gen).or_insert(0);
                    *c += 1;
                    let last = ep.last_gen_sealed;
                    ep.last_gen_sealed = Some(last.map_or(gen, |l| l.max(gen)));
                    (*c, last, ep.rx_gen)
                };
                self.st.max_sealed_per_gen = self.st.max_sealed_per_gen.max(count);
                trace!(self, 
                    "{} seals pn={pn} gen={gen} (#{count} of limit {}) basis={peer_has} len={len}",
                    Self::name(e),
                    self.conf_limit
                );
                // K1
                if count > self.conf_limit {
                    self.set_fail(
                        "confidentiality_limit_exceeded",
                        format!(
                            "{} sealed {count} packets with key generation {gen}; confidentiality limit {} (update window {})",
                            Self::name(e), self.conf_limit, self.window
                        ),
                    );
                }
                // K3
                if let Some(l) = last {
                    if gen < l {
                        self.set_fail(
                            "generation_regression",
                            format!(
                                "{} sealed pn {pn} with key generation {gen} after having sealed a lower packet number with generation {l} (RFC 9001 6.4)",
                                Self::name(e)
                            ),
                        );
                    }
                }
                if gen < rx_gen {
                    self.set_fail(
                        "send_keys_not_updated",
                        format!(
                            "{} sealed pn {pn} with generation {gen} although it already opened generation {rx_gen} from its peer (RFC 9001 6.2)",
                            Self::name(e)
                        ),
                    );
                }
                if gen > rx_gen + 1 {
                    self.set_fail(
                        "update_before_confirmation",
                        format!(
                            "{} sealed with generation {gen} while the peer has only confirmed generation {rx_gen} (RFC 9001 6.1)",
                            Self::name(e)
                        ),
                    );
                }
                if last.is_some_and(|l| gen > l)
                    && self.eps[1 - e].last_gen_sealed.is_some_and(|g| g >= gen)
                    && rx_gen < gen
                {
                    self.st.shape |= shape::BOTH_INITIATE;
                }
                let seq = self.seq;
                self.seq += 1;
                self.chan.push(Wire {
                    from: e,
                    pn,
                    gen,
                    bytes: buf[..len].to_vec(),
                    seq,
                });
            }
            Err("limit") => {
                self.st.refusals += 1;
                self.st.shape |= shape::REFUSAL;
                let ep = &self.eps[e];
                let send_gen = ep.last_gen_sealed.unwrap_or(0);
                let used = ep.sealed.get(&send_gen).copied().unwrap_or(0);
                let rx_gen_e = ep.rx_gen;
                // RFC 9001 6.5: for about one PTO after an update the next keys need not exist yet,
                // so no further update can be initiated: refusing meanwhile is legitimate
                let timer_e = ep.timer_state;
                let msg = format!(
                    "{} refused to seal pn {pn}: send generation {send_gen} used {used}/{} , peer-confirmed generation {}",
                    Self::name(e), self.conf_limit, ep.rx_gen
                );
                if self.tracing {
                    self.log(msg.clone());
                }
                // K2
                if used < self.conf_limit {
                    self.set_fail("refused_before_limit", msg);
                } else if rx_gen_e >= send_gen && timer_e == TimerState::Settled {
                    self.set_fail(
                        "no_update_before_limit",
                        format!("{msg}: the current generation is confirmed, a key update was possible (RFC 9001 6.6)"),
                    );
                }
            }
            Err(other) => panic!("harness: encode_packet failed: {other}"),
        }
    }

    /// largest packet number of `e` that its peer has opened
    fn chan_basis(&self, e: usize) -> Option<u64> {
        self.eps[1 - e].largest_rx
    }

    // ---- open --------------------------------------------------------------------------

    /// feeds `bytes` to endpoint `to`; returns (opened?, announced generation, error is aead limit,
    /// expanded packet number)
    fn feed(&mut self, to: usize, bytes: &[u8]) -> (Result<Option<u16>, bool>, Option<u64>, u64) {
        let mut copy = bytes.to_vec();
        let deadline_us = self.now_us + self.pto_us;
        let ep = &mut self.eps[to];
        let basis = pn_obj(ep.largest_rx.unwrap_or(0));
        let info = ConnectionInfo::new(&self.remote);
        let buffer = DecoderBufferMut::new(&mut copy);
        let (packet, _rest) = match ProtectedPacket::decode(buffer, &info, &DCID.len()) {
            Ok(v) => v,
            Err(_) => panic!("harness: packet does not decode"),
        };
        let ProtectedPacket::Short(short) = packet else {
            panic!("harness: not a short packet")
        };
        let enc = match short.unprotect(&THeaderKey, basis) {
            Ok(v) => v,
            Err(_) => panic!("harness: unprotect failed"),
        };
        let pn = enc.packet_number.as_u64();
        match ep.ks.decrypt_packet(enc, basis, ts(deadline_us)) {
            Ok((_clear, generation)) => (Ok(generation), Some(pn), deadline_us),
            Err(e) => (Err(is_aead_limit(&e)), Some(pn), deadline_us),
        }
    }

    fn account_failure(&mut self, to: usize, was_aead_limit: bool, what: &str) {
        let n = {
            let ep = &mut self.eps[to];
            ep.fails += 1;
            ep.fails
        };
        // K6
        if n < self.integ_limit && was_aead_limit {
            self.set_fail(
                "aead_limit_reached_early",
                format!(
                    "{} returned AEAD_LIMIT_REACHED at failed authentication #{n}; integrity limit {} ({what})",
                    Self::name(to), self.integ_limit
                ),
            );
        }
        if n >= self.integ_limit && !was_aead_limit {
            self.set_fail(
                "aead_limit_not_enforced",
                format!(
                    "{} has {n} failed authentications (integrity limit {}) but decrypt_packet did not return AEAD_LIMIT_REACHED ({what})",
                    Self::name(to), self.integ_limit
                ),
            );
        }
        if n >= self.integ_limit && !self.eps[to].limit_hit {
            self.eps[to].limit_hit = true;
            self.st.integrity_closes += 1;
            self.st.shape |= shape::INTEGRITY_LIMIT;
            trace!(self, "{} reached the integrity limit", Self::name(to));
        }
    }

    fn op_deliver(&mut self) {
        if self.chan.is_empty() {
            return;
        }
        // pick: mostly the oldest, sometimes any (reordering)
        let idx = if self.rng.below(100) < self.reorder_pct {
            self.st.shape |= shape::REORDER;
            self.st.reordered += 1;
            self.rng.below(self.chan.len() as u64) as usize
        } else {
            0
        };
        let r = self.rng.below(100);
        if r < self.drop_pct {
            self.chan.remove(idx);
            self.st.dropped += 1;
            self.st.shape |= shape::DROP;
            return;
        }
        let duplicate = self.rng.chance(1, 10);
        let w = if duplicate {
            self.st.duplicated += 1;
            self.st.shape |= shape::DUPLICATE;
            let w = &self.chan[idx];
            Wire {
                from: w.from,
                pn: w.pn,
                gen: w.gen,
                bytes: w.bytes.clone(),
                seq: w.seq,
            }
        } else {
            self.chan.remove(idx)
        };
        let to = 1 - w.from;
        // packets too far behind cannot be expanded to the right packet number any more; a real
        // receiver would fail to open them for that reason alone, which says nothing about keys
        if let Some(l) = self.eps[to].largest_rx {
            if w.pn + 48 < l {
                self.st.dropped += 1;
                return;
            }
        }
        if self.avoid_known
            && w.gen + 1 == self.eps[to].rx_gen
            && self.eps[to].timer_state != TimerState::Settled
        {
            // steer away from known finding F1 (see README): a previous-generation packet that
            // arrives while the old keys are retained is treated as lost instead
            self.st.suppressed_old_gen += 1;
            return;
        }
        self.deliver_genuine(to, &w);
    }

    fn deliver_genuine(&mut self, to: usize, w: &Wire) {
        let rx_before = self.eps[to].rx_gen;
        let timer_before = self.eps[to].timer_state;
        let closed_before = self.eps[to].limit_hit;
        let (res, pn, deadline_us) = self.feed(to, &w.bytes);
        self.st.delivered += 1;
        if pn != Some(w.pn) {
            panic!("harness: packet number expanded to {pn:?}, sent {}", w.pn);
        }
        let g = w.gen;
        // K4: what RFC 9001 requires of the receiver for this packet
        #[derive(PartialEq, Debug)]
        enum Must {
            Open,
            Either,
        }
        let (must, class) = if g == rx_before {
            (Must::Open, "current")
        } else if g == rx_before + 1 {
            match timer_before {
                TimerState::Settled => (Must::Open, "next"),
                _ => {
                    self.st.next_gen_in_deferral += 1;
                    self.st.shape |= shape::NEXT_GEN_IN_DEFERRAL;
                    (Must::Either, "next-during-deferral")
                }
            }
        } else if g + 1 == rx_before {
            match timer_before {
                TimerState::Retaining => {
                    self.st.old_gen_in_retention += 1;
                    self.st.shape |= shape::OLD_GEN_IN_RETENTION;
                    (Must::Open, "previous-retained")
                }
                TimerState::Unknown => {
                    self.st.old_gen_band += 1;
                    (Must::Either, "previous-band")
                }
                TimerState::Settled => {
                    self.st.old_gen_after_discard += 1;
                    self.st.shape |= shape::OLD_GEN_AFTER_DISCARD;
                    (Must::Either, "previous-discarded")
                }
            }
        } else {
            self.st.far_gen += 1;
            self.st.shape |= shape::FAR_GEN;
            (Must::Either, "far")
        };
        trace!(self, 
            "deliver {}->{} pn={} gen={g} [{class}] rx_gen={rx_before} timer={timer_before:?} -> {res:?}",
            Self::name(w.from),
            Self::name(to),
            w.pn
        );
        match res {
            Ok(announced) => {
                self.st.opened += 1;
                if closed_before {
                    // "not process any more packets" is the connection's job (it closes); the KeySet
                    // itself keeps no latch.  Observed, not judged, at component level.
                    self.st.post_limit_genuine_accepted += 1;
                    self.st.shape |= shape::POST_LIMIT_GENUINE_ACCEPTED;
                }
                // the key that opened it must be of the packet's generation
                let opened_with = self
                    .log
                    .lock()
                    .unwrap()
                    .opened
                    .last()
                    .copied()
                    .expect("open logged");
                if !(opened_with.3 && opened_with.1 == g && opened_with.2 == w.pn) {
                    self.set_fail(
                        "opened_with_wrong_generation",
                        format!("packet pn {} gen {g} reported open, key log says {opened_with:?}", w.pn),
                    );
                }
                // K5
                let expect_update = g > rx_before;
                match (expect_update, announced) {
                    (true, Some(n)) if n as u32 == (g & 0xffff) => {}
                    (false, None) => {}
                    _ => {
                        self.set_fail(
                            if expect_update {
                                "key_update_not_announced"
                            } else {
                                "spurious_key_update"
                            },
                            format!(
                                "{} opened a genuine packet of generation {g} (pn {}) while its receive generation was {rx_before}; decrypt_packet announced {announced:?}",
                                Self::name(to), w.pn
                            ),
                        );
                    }
                }
                let ep = &mut self.eps[to];
                ep.largest_rx = Some(ep.largest_rx.map_or(w.pn, |l| l.max(w.pn)));
                if g > rx_before {
                    ep.rx_gen = g;
                    ep.retain_deadline_us = Some(deadline_us);
                    ep.timer_state = TimerState::Retaining;
                    self.st.updates += 1;
                    self.st.shape |= shape::UPDATE;
                    if self.st.updates >= 6 {
                        self.st.shape |= shape::MANY_UPDATES;
                    }
                }
            }
            Err(aead) => {
                if must == Must::Open {
                    self.set_fail(
                        "genuine_packet_rejected",
                        format!(
                            "{} failed to open a genuine packet pn {} of generation {g} ({class}); its receive generation is {rx_before}, timer state {timer_before:?}",
                            Self::name(to), w.pn
                        ),
                    );
                }
                self.account_failure(to, aead, "genuine packet outside the retained generations");
            }
        }
    }

    fn op_forge(&mut self) {
        if self.chan.is_empty() {
            return;
        }
        let idx = self.rng.below(self.chan.len() as u64) as usize;
        let to = 1 - self.chan[idx].from;
        let mut bytes = self.chan[idx].bytes.clone();
        let (pn, gen) = (self.chan[idx].pn, self.chan[idx].gen);
        let n = bytes.len();
        let kind = self.rng.below(4);
        match kind {
            0 => {
                // apparent key update: flip the (header protected) key phase bit
                bytes[0] ^= 0x04;
                self.st.shape |= shape::PHASE_FLIP_FORGERY;
            }
            1 => bytes[n - 1 - self.rng.below(8) as usize] ^= 1 << self.rng.below(8), // MAC
            2 => bytes[n - 9 - self.rng.below(4) as usize] ^= 0x01, // tagged packet number
            _ => bytes[n - TAG_LEN - 1 - self.rng.below(8) as usize] ^= 0x80, // ciphertext tail
        }
        self.st.forgeries += 1;
        self.st.shape |= shape::FORGERY;
        let (res, _pn, _dl) = self.feed(to, &bytes);
        trace!(self, 
            "forgery(kind {kind}) of pn={pn} gen={gen} -> {} : {res:?}",
            Self::name(to)
        );
        match res {
            Ok(_) => self.set_fail(
                "forgery_accepted",
                format!("{} opened a forged packet (kind {kind}, from pn {pn})", Self::name(to)),
            ),
            Err(aead) => self.account_failure(to, aead, "forged packet"),
        }
    }

    // ---- time --------------------------------------------------------------------------

    fn op_time(&mut self) {
        let dt = match self.rng.below(6) {
            0 => self.rng.range(0, 200),
            1..=3 => self.rng.range(200, self.pto_us / 2 + 201),
            4 => self.rng.range(self.pto_us / 2, self.pto_us * 2),
            _ => self.rng.range(self.pto_us, self.pto_us * 5),
        };
        self.now_us += dt;
        // timers fire at (or, late, after) their deadline; sometimes an endpoint is also polled
        // although nothing is due
        for e in 0..2 {
            let due = self.eps[e]
                .ks
                .next_expiration()
                .is_some_and(|t| t <= ts(self.now_us));
            if due || self.rng.chance(1, 5) {
                self.on_timeout(e);
            }
        }
    }

    fn on_timeout(&mut self, e: usize) {
        let now = self.now_us;
        let derivs = self.log.lock().unwrap().derivations;
        self.eps[e].ks.on_timeout(ts(now));
        let derived = self.log.lock().unwrap().derivations != derivs;
        self.st.timeouts += 1;
        self.st.shape |= shape::TIMER;
        let ep = &mut self.eps[e];
        if let Some(d) = ep.retain_deadline_us {
            if ep.timer_state != TimerState::Settled {
                if now >= d {
                    ep.timer_state = TimerState::Settled;
                    ep.retain_deadline_us = None;
                } else if now + 1000 > d {
                    // Timestamp::has_elapsed: deadlines < 1 ms ahead count as due
                    ep.timer_state = TimerState::Unknown;
                }
            }
        }
        let state = ep.timer_state;
        trace!(self, 
            "{} on_timeout derived_next_keys={derived} -> {state:?}",
            Self::name(e)
        );
        // old keys must not be dropped before the deadline handed to decrypt_packet
        if derived && state == TimerState::Retaining {
            self.set_fail(
                "old_keys_discarded_early",
                format!(
                    "{} derived the next keys (dropping the old ones) before the retention deadline",
                    Self::name(e)
                ),
            );
        }
    }

    fn step(&mut self) {
        self.st.steps += 1;
        let r = self.rng.below(1000);
        if r < self.forge_pct {
            self.op_forge();
        } else {
            match self.rng.below(10) {
                0..=3 => {
                    let e = self.rng.below(2) as usize;
                    let burst = self.rng.range(1, 4);
                    for _ in 0..burst {
                        if self.fail.is_none() {
                            self.op_send(e);
                        }
                    }
                }
                4..=7 => self.op_deliver(),
                _ => self.op_time(),
            }
        }
        if self.chan.len() > 96 {
            // bounded queue: the oldest packet is lost
            self.chan.remove(0);
            self.st.dropped += 1;
        }
        if self.eps[0].limit_hit && self.eps[1].limit_hit {
            self.done = true;
        }
    }
}

struct Outcome {
    fail: Option<Fail>,
    st: Stats,
    trace: Vec<String>,
    conf_limit: u64,
    integ_limit: u64,
    window: u64,
}

fn drive(rng: Rng, steps: u64, miri: bool, verbose: bool, avoid_known: bool) -> Outcome {
    let mut h = Hist::new(rng, miri, verbose, avoid_known);
    if verbose {
        eprintln!(
            "  confidentiality limit {} update window {} integrity limit {} pto {}us forge {}/1000 drop {}% reorder {}%",
            h.conf_limit, h.window, h.integ_limit, h.pto_us, h.forge_pct, h.drop_pct, h.reorder_pct
        );
    }
    let mut after_close = 0;
    while h.st.steps < steps && h.fail.is_none() && !h.done {
        h.step();
        if h.eps[0].limit_hit || h.eps[1].limit_hit {
            // a connection that hit the integrity limit closes: a few more deliveries probe that
            // the error is sticky for failing packets, then the history ends
            after_close += 1;
            if after_close > 12 {
                break;
            }
        }
    }
    Outcome {
        fail: h.fail,
        st: h.st,
        trace: h.trace,
        conf_limit: h.conf_limit,
        integ_limit: h.integ_limit,
        window: h.window,
    }
}

pub fn run(p: &Params, sum: &mut Summary) {
    let range: Box<dyn Iterator<Item = u64>> = match p.only {
        Some(i) => Box::new(i..=i),
        None => Box::new(0..p.iters),
    };
    let mut total = 0u64;
    let mut acc = crate::common::Acc::default();
    for index in range {
        let mut rng = Rng::new(mix(p.seed ^ 0xC15C_15C1, index));
        let steps = if p.miri {
            rng.range(12, 40)
        } else {
            rng.range(200, 2000)
        };
        if p.verbose {
            eprintln!("history {index}: steps={steps}");
        }
        let (miri, verbose, avoid) = (p.miri, p.verbose, p.avoid_known);
        let res = guarded(move || drive(rng, steps, miri, verbose, avoid));
        sum.evaluations += 1;
        let replay = json!({"check": "keys", "seed": p.seed, "history": index, "mode": p.mode(), "steps": steps, "avoid_known": p.avoid_known});
        match res {
            Err(Caught::Library { loc, msg }) => sum.violation(Violation {
                property: "C15".into(),
                signature: format!("keys.{}", panic_sig(&loc, &msg)),
                what: format!("library panic at {loc}: {msg}"),
                replay,
            }),
            Err(Caught::Harness { loc, msg }) => sum
                .inconclusive
                .push(format!("keys history {index}: harness panic at {loc}: {msg}")),
            Ok(o) => {
                let s = &o.st;
                total += s.steps;
                for (k, v) in [
                    ("steps", s.steps),
                    ("packets_sealed", s.sealed),
                    ("packets_delivered", s.delivered),
                    ("packets_opened", s.opened),
                    ("packets_dropped", s.dropped),
                    ("packets_duplicated", s.duplicated),
                    ("deliveries_out_of_order", s.reordered),
                    ("forgeries_injected", s.forgeries),
                    ("key_updates_performed", s.updates),
                    ("updates_overlapping_reordering(previous_gen_opened_during_retention)", s.old_gen_in_retention),
                    ("previous_gen_after_discard", s.old_gen_after_discard),
                    ("previous_gen_inside_1ms_band", s.old_gen_band),
                    ("next_gen_during_deferral_window", s.next_gen_in_deferral),
                    ("generation_two_or_more_away", s.far_gen),
                    ("seal_refusals(aead_limit)", s.refusals),
                    ("integrity_limit_closes", s.integrity_closes),
                    ("on_timeout_calls", s.timeouts),
                    ("genuine_opened_after_integrity_limit(observed_only)", s.post_limit_genuine_accepted),
                    ("avoid_known.previous_gen_packets_withheld_during_retention", s.suppressed_old_gen),
                    ("avoid_known.sends_withheld_during_retention_inside_update_window", s.suppressed_sends),
                ] {
                    acc.count("", k, v);
                }
                acc.max("", "max_key_generation", s.max_gen as i64);
                acc.max("", "max_sealed_with_one_generation", s.max_sealed_per_gen as i64);
                acc.min("", "min_headroom_to_confidentiality_limit",
                    o.conf_limit as i64 - s.max_sealed_per_gen as i64,
                );
                let nontrivial = s.updates >= 1 && s.opened >= 3;
                if nontrivial {
                    sum.signatures.insert(mix(0xC15, s.shape as u64));
                } else {
                    sum.trivial += 1;
                }
                if sum.samples.len() < 4 && (nontrivial || p.miri) {
                    sum.sample(json!({"history": index, "steps": s.steps,
                        "confidentiality_limit": o.conf_limit, "key_update_window": o.window,
                        "integrity_limit": o.integ_limit, "updates": s.updates,
                        "shape_bits": format!("{:#x}", s.shape), "last_ops": o.trace}));
                }
                if let Some(f) = o.fail {
                    let mut replay = replay;
                    replay["witness"] = json!(o.trace);
                    replay["confidentiality_limit"] = json!(o.conf_limit);
                    replay["key_update_window"] = json!(o.window);
                    replay["integrity_limit"] = json!(o.integ_limit);
                    sum.violation(Violation {
                        property: "C15".into(),
                        signature: f.sig,
                        what: f.what,
                        replay,
                    });
                }
            }
        }
    }
    acc.flush(sum);
    if total == 0 && p.only.is_none() {
        sum.inconclusive.push("keys: no step was run".into());
    }
}
