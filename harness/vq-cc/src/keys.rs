use crate::common::Params;
use vq_util::Summary;
pub fn run(_p: &Params, _sum: &mut Summary) {}
