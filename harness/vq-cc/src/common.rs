//! Shared bits: parameters, virtual time, panic capture, the random::Generator shim.

use core::time::Duration;
use s2n_quic_core::{random, time::Timestamp};
use std::sync::Mutex;
use vq_util::Rng;

pub struct Params {
    pub seed: u64,
    pub iters: u64,
    pub miri: bool,
    /// replay: run only this history index, verbosely
    pub only: Option<u64>,
    pub verbose: bool,
    /// cc only: treat the RFC 9002 appendix B.6 send-time rule as binding
    pub strict_appendix_b: bool,
    /// keys only: steer the workload away from the two known KeySet findings (README)
    pub avoid_known: bool,
    /// cc only: configuration probe with an initial congestion window near u32::MAX
    pub huge_initial_window: bool,
}

impl Params {
    pub fn mode(&self) -> &'static str {
        if self.miri {
            "miri"
        } else {
            "native"
        }
    }
}

/// Virtual time: microseconds since the (virtual) epoch.  The harness is the time source.
#[inline]
pub fn ts(us: u64) -> Timestamp {
    // SAFETY (API contract): `from_duration` is reserved for time sources; the harness is the
    // only clock these components ever see.
    unsafe { Timestamp::from_duration(Duration::from_micros(us)) }
}

/// `random::Generator` backed by the seeded SplitMix64.
pub struct Gen(pub Rng);

impl random::Generator for Gen {
    fn public_random_fill(&mut self, dest: &mut [u8]) {
        self.0.fill(dest)
    }
    fn private_random_fill(&mut self, dest: &mut [u8]) {
        self.0.fill(dest)
    }
}

/// One oracle failure inside a history.
#[derive(Debug, Clone)]
pub struct Fail {
    pub sig: String,
    pub what: String,
}

impl Fail {
    pub fn new(sig: impl Into<String>, what: impl Into<String>) -> Self {
        Fail {
            sig: sig.into(),
            what: what.into(),
        }
    }
}

// ---- panic capture -------------------------------------------------------------------------

static LAST_PANIC: Mutex<Option<(String, String)>> = Mutex::new(None);

pub fn install_panic_hook() {
    std::panic::set_hook(Box::new(|info| {
        let loc = info
            .location()
            .map(|l| format!("{}:{}", l.file(), l.line()))
            .unwrap_or_else(|| "?".into());
        let msg = if let Some(s) = info.payload().downcast_ref::<&str>() {
            s.to_string()
        } else if let Some(s) = info.payload().downcast_ref::<String>() {
            s.clone()
        } else {
            "<non-string panic>".into()
        };
        if let Ok(mut g) = LAST_PANIC.lock() {
            *g = Some((loc, msg));
        }
    }));
}

pub enum Caught {
    /// panic raised inside the library under test
    Library { loc: String, msg: String },
    /// panic raised by the harness' own code
    Harness { loc: String, msg: String },
}

/// Run `f`, catching panics and classifying them by the source location of the panic.
pub fn guarded<T>(f: impl FnOnce() -> T) -> Result<T, Caught> {
    match std::panic::catch_unwind(std::panic::AssertUnwindSafe(f)) {
        Ok(v) => Ok(v),
        Err(_) => {
            let (loc, msg) = LAST_PANIC
                .lock()
                .ok()
                .and_then(|mut g| g.take())
                .unwrap_or_else(|| ("?".into(), "?".into()));
            if loc.contains("vq-cc/") || loc.contains("vq-util/") {
                Err(Caught::Harness { loc, msg })
            } else {
                Err(Caught::Library { loc, msg })
            }
        }
    }
}

/// stable signature for a library panic: file name (no line) + first words of the message
pub fn panic_sig(loc: &str, msg: &str) -> String {
    let file = loc.rsplit('/').next().unwrap_or(loc);
    let file = file.split(':').next().unwrap_or(file);
    let head: String = msg
        .chars()
        .take(48)
        .map(|c| if c.is_ascii_alphanumeric() { c } else { '_' })
        .collect();
    format!("panic:{file}:{head}")
}

/// Cheap accumulator with static keys; turned into `Summary` counters once per run (building
/// a `String` key per counter and history is what dominates tiny Miri histories otherwise).
#[derive(Default)]
pub struct Acc {
    c: std::collections::BTreeMap<(&'static str, &'static str), u64>,
    mn: std::collections::BTreeMap<(&'static str, &'static str), i64>,
    mx: std::collections::BTreeMap<(&'static str, &'static str), i64>,
}

impl Acc {
    pub fn count(&mut self, prefix: &'static str, name: &'static str, n: u64) {
        *self.c.entry((prefix, name)).or_insert(0) += n;
    }
    pub fn min(&mut self, prefix: &'static str, name: &'static str, v: i64) {
        let e = self.mn.entry((prefix, name)).or_insert(i64::MAX);
        *e = (*e).min(v);
    }
    pub fn max(&mut self, prefix: &'static str, name: &'static str, v: i64) {
        let e = self.mx.entry((prefix, name)).or_insert(i64::MIN);
        *e = (*e).max(v);
    }
    fn key(p: &str, n: &str) -> String {
        if p.is_empty() {
            n.to_string()
        } else {
            format!("{p}.{n}")
        }
    }
    pub fn flush(self, sum: &mut vq_util::Summary) {
        for ((p, n), v) in self.c {
            sum.count(&Self::key(p, n), v);
        }
        for ((p, n), v) in self.mn {
            sum.min(&Self::key(p, n), v);
        }
        for ((p, n), v) in self.mx {
            sum.max(&Self::key(p, n), v);
        }
    }
}
