//! C10 (component part): CUBIC and BBRv2 driven through the `CongestionController` trait
//! with seeded, *legal* histories; an independent oracle runs after every call.
//!
//! Legality is kept by a shadow set of outstanding packets: only outstanding packets are
//! acked / lost / discarded, the `PacketInfo` returned by `on_packet_sent` is handed back,
//! timestamps are monotone, the RTT estimator is updated the way the recovery manager does it
//! (`update_rtt` then `on_rtt_update`, only when the largest acknowledged packet is newly
//! acknowledged and ack-eliciting), and the per-ACK call order mirrors recovery::Manager
//! (rtt update -> loss declarations -> ECN -> on_ack).
//!
//! Oracle (restated from RFC 9002 section 7 / appendix B and the BBRv2 draft, not from the code):
//!  O1  cwnd >= kMinimumWindow: 2*max_datagram_size (RFC 9002 7.2) for CUBIC,
//!      BBRMinPipeCwnd = 4*SMSS (BBRv2 draft 2.8) for BBR, w.r.t. the *current* datagram size
//!  O2  no wrap: a call never raises cwnd by more than the bytes it newly acknowledged unless it
//!      returns to a value already attained earlier (BBR restores a saved cwnd) / MTU rescale
//!  O3  bytes_in_flight == sum of the shadow's outstanding congestion-controlled bytes
//!  CUBIC only:
//!  O4  a loss / ECN call never increases cwnd
//!  O5  at most one reduction per recovery period (RFC 9002 7.3.2: the period ends when a packet
//!      sent during it is acknowledged); O5b (appendix B.6, keyed by send time): the loss of a
//!      packet sent before the latest recovery period began does not reduce again
//!  O6  RFC 9002 7.8: no growth on on_ack while the window is under-utilised.  Only asserted
//!      when the shadow is *clearly* application limited by every documented measure of the
//!      implementation (last send app_limited=Some(true), bytes_in_flight < cwnd/2 and more
//!      than 3 datagrams of room, both when sending and when the ack arrives)
//!  O7  persistent congestion => cwnd == kMinimumWindow

use crate::common::{guarded, panic_sig, ts, Caught, Fail, Gen, Params};
use core::time::Duration;
use num_rational::Ratio;
use s2n_quic_core::{
    event::builder::{BbrState, SlowStartExitCause},
    packet::number::PacketNumberSpace,
    recovery::{
        bandwidth::{Bandwidth, RateSample},
        bbr::BbrCongestionController,
        congestion_controller::Publisher,
        CongestionController, CubicCongestionController, RttEstimator,
    },
};
use std::collections::BTreeMap;
use vq_util::{json, mix, Rng, Summary, Violation};


/// formats and records a trace line only when tracing is on (off under Miri unless --verbose:
/// the witness of a Miri-mode history is regenerated natively with `--replay`)
macro_rules! trace {
    ($s:expr, $($arg:tt)*) => {
        if $s.tracing {
            let m = format!($($arg)*);
            $s.log(m);
        }
    };
}

#[derive(Clone, Copy, PartialEq, Eq, Debug)]
enum Kind {
    Cubic,
    Bbr,
}

impl Kind {
    fn name(self) -> &'static str {
        match self {
            Kind::Cubic => "cubic",
            Kind::Bbr => "bbr",
        }
    }
    fn min_window(self, mtu: u16) -> u64 {
        match self {
            // RFC 9002 7.2: "The RECOMMENDED value is 2 * max_datagram_size."
            Kind::Cubic => 2 * mtu as u64,
            // BBRv2 draft 2.8: BBRMinPipeCwnd "4 * SMSS"
            Kind::Bbr => 4 * mtu as u64,
        }
    }
}

// ---- publisher ---------------------------------------------------------------------------

#[derive(Default)]
struct Pub {
    ss_exit: [u64; 4],
    bbr_states: u16,
    bbr_transitions: u64,
    pacing_updates: u64,
    rate_samples: u64,
}

fn bbr_bit(s: &BbrState) -> (u16, &'static str) {
    match s {
        BbrState::Startup => (1, "Startup"),
        BbrState::Drain => (2, "Drain"),
        BbrState::ProbeBwDown => (4, "ProbeBwDown"),
        BbrState::ProbeBwCruise => (8, "ProbeBwCruise"),
        BbrState::ProbeBwRefill => (16, "ProbeBwRefill"),
        BbrState::ProbeBwUp => (32, "ProbeBwUp"),
        BbrState::ProbeRtt => (64, "ProbeRtt"),
    }
}
const BBR_NAMES: [&str; 7] = [
    "Startup",
    "Drain",
    "ProbeBwDown",
    "ProbeBwCruise",
    "ProbeBwRefill",
    "ProbeBwUp",
    "ProbeRtt",
];

impl Publisher for Pub {
    fn on_slow_start_exited(&mut self, cause: SlowStartExitCause, _cwnd: u32) {
        let i = match cause {
            SlowStartExitCause::PacketLoss => 0,
            SlowStartExitCause::Ecn => 1,
            SlowStartExitCause::Rtt => 2,
            SlowStartExitCause::Other => 3,
        };
        self.ss_exit[i] += 1;
    }
    fn on_delivery_rate_sampled(&mut self, _rate_sample: RateSample) {
        self.rate_samples += 1;
    }
    fn on_pacing_rate_updated(&mut self, _r: Bandwidth, _burst: u32, _gain: Ratio<u64>) {
        self.pacing_updates += 1;
    }
    fn on_bbr_state_changed(&mut self, state: BbrState) {
        self.bbr_states |= bbr_bit(&state).0;
        self.bbr_transitions += 1;
    }
}

// ---- shadow ------------------------------------------------------------------------------

struct Pkt<I> {
    bytes: u32,
    sent_us: u64,
    info: I,
    /// sent in a handshake space (app_limited = None); discarded together with that space
    handshake: bool,
    mtu_probe: bool,
}

/// flags describing the shape of a history
mod shape {
    pub const SEND: u32 = 1 << 0;
    pub const SEND_ZERO: u32 = 1 << 1;
    pub const PROBE_OVER_CWND: u32 = 1 << 2;
    pub const RTT: u32 = 1 << 3;
    pub const ACK: u32 = 1 << 4;
    pub const ACK_SPLIT: u32 = 1 << 5;
    pub const LOSS: u32 = 1 << 6;
    pub const LOSS_TIMER: u32 = 1 << 7;
    pub const PC: u32 = 1 << 8;
    pub const ECN: u32 = 1 << 9;
    pub const MTU_UP: u32 = 1 << 10;
    pub const MTU_DOWN: u32 = 1 << 11;
    pub const DISCARD: u32 = 1 << 12;
    pub const RECOVERY: u32 = 1 << 13;
    pub const LOSS_IN_RECOVERY: u32 = 1 << 14;
    pub const APP_LIMITED_HOLD: u32 = 1 << 15;
    pub const IDLE: u32 = 1 << 16;
    pub const AT_MINIMUM: u32 = 1 << 17;
    pub const FAST_RETX: u32 = 1 << 18;
    pub const LOSS_PRE_RECOVERY_PKT: u32 = 1 << 19;
    pub const MTU_PROBE_LOST: u32 = 1 << 20;
    pub const REORDERED_ACK: u32 = 1 << 21;
}

#[derive(Clone, Copy)]
enum Call {
    Sent,
    Rtt,
    Ack { bytes: u64, newest_sent_us: u64 },
    Lost { pc: bool, sent_us: u64 },
    Ecn,
    Mtu { old: u16, new: u16 },
    Discard,
}

impl Call {
    fn name(&self) -> &'static str {
        match self {
            Call::Sent => "on_packet_sent",
            Call::Rtt => "on_rtt_update",
            Call::Ack { .. } => "on_ack",
            Call::Lost { .. } => "on_packet_lost",
            Call::Ecn => "on_explicit_congestion",
            Call::Mtu { .. } => "on_mtu_update",
            Call::Discard => "on_packet_discarded",
        }
    }
}

#[derive(Default)]
struct Stats {
    events: BTreeMap<&'static str, u64>,
    recovery_episodes: u64,
    pc_episodes: u64,
    pc_batches: u64,
    pc_multi_run_batches: u64,
    pc_over_threshold: u64,
    pc_over_threshold_multi_run: u64,
    app_limited_holds: u64,
    min_margin: i64,
    max_cwnd: u64,
    max_bif: u64,
    losses_in_recovery: u64,
    appendix_b_deviations: u64,
    shape: u32,
}

struct Hist<CC: CongestionController> {
    kind: Kind,
    cc: CC,
    rtt: RttEstimator,
    rng: Rng,
    gen: Gen,
    publ: Pub,
    now_us: u64,
    mtu: u16,
    out: BTreeMap<u64, Pkt<CC::PacketInfo>>,
    next_pn: u64,
    /// bytes the controller still has to count as in flight (sum over `out` + acked-but-not-yet
    /// reported bytes during the processing of one ACK frame)
    shadow_bif: u64,
    pending_acked: u64,
    largest_acked: Option<u64>,
    handshake_sends_left: u32,
    confirmed: bool,
    app_limited_phase: bool,
    /// low-loss profile: lets the window grow large
    clean: bool,
    /// Miri-sized history
    tiny: bool,
    // RFC 9002 view of the CUBIC recovery period
    recovery_start_us: Option<u64>,
    last_recovery_start_us: Option<u64>,
    // O6 latch
    clearly_app_limited: bool,
    hi_water: u64,
    calls: u64,
    stats: Stats,
    verbose: bool,
    tracing: bool,
    strict_appendix_b: bool,
    trace: Vec<String>,
    fail: Option<Fail>,
}

const MAX_OUTSTANDING: usize = 1024;
const MAX_SHADOW_BIF: u64 = 1 << 30;

impl<CC: CongestionController> Hist<CC> {
    fn new(kind: Kind, cc: CC, mtu: u16, rng: Rng, verbose: bool, strict_appendix_b: bool) -> Self {
        let mut rng = rng;
        let gen = Gen(rng.fork());
        let handshake_sends_left = rng.below(6) as u32;
        let clean = rng.chance(1, 3);
        let initial_rtt = if rng.chance(1, 2) {
            Duration::from_millis(333)
        } else {
            Duration::from_micros(rng.range(100, 900_000))
        };
        let stats = Stats {
            min_margin: i64::MAX,
            ..Default::default()
        };
        let mut h = Hist {
            kind,
            cc,
            rtt: RttEstimator::new(initial_rtt),
            rng,
            gen,
            publ: Pub::default(),
            now_us: 1_000_000,
            mtu,
            out: BTreeMap::new(),
            next_pn: 0,
            shadow_bif: 0,
            pending_acked: 0,
            largest_acked: None,
            handshake_sends_left,
            confirmed: false,
            app_limited_phase: false,
            clean,
            tiny: false,
            recovery_start_us: None,
            last_recovery_start_us: None,
            clearly_app_limited: false,
            hi_water: 0,
            calls: 0,
            stats,
            verbose,
            tracing: verbose || !cfg!(miri),
            strict_appendix_b,
            trace: Vec::new(),
            fail: None,
        };
        h.hi_water = h.cc.congestion_window() as u64;
        // the initial state must satisfy the static bounds too
        h.check_static("new");
        h
    }

    fn log(&mut self, s: String) {
        if self.verbose {
            eprintln!("[{:>6}] t={}us {}", self.calls, self.now_us, s);
        }
        if self.trace.len() >= 24 {
            self.trace.remove(0);
        }
        self.trace.push(format!("t={} {}", self.now_us, s));
    }

    fn set_fail(&mut self, sig: &str, what: String) {
        if self.fail.is_none() {
            let sig = format!("cc.{}.{}", self.kind.name(), sig);
            if self.verbose {
                eprintln!("VIOLATION {sig}: {what}");
            }
            self.fail = Some(Fail::new(sig, what));
        }
    }

    fn check_static(&mut self, call: &str) {
        let cwnd = self.cc.congestion_window() as u64;
        let bif = self.cc.bytes_in_flight() as u64;
        let min = self.kind.min_window(self.mtu);
        if cwnd < min {
            self.set_fail(
                "cwnd_below_minimum",
                format!(
                    "after {call}: cwnd {cwnd} < minimum window {min} (max_datagram_size {})",
                    self.mtu
                ),
            );
        }
        let margin = cwnd as i64 - min as i64;
        if margin < self.stats.min_margin {
            self.stats.min_margin = margin;
        }
        if margin == 0 {
            self.stats.shape |= shape::AT_MINIMUM;
        }
        if bif != self.shadow_bif {
            self.set_fail(
                "bytes_in_flight_mismatch",
                format!(
                    "after {call}: controller bytes_in_flight {bif} != shadow sum {} ({} outstanding packets)",
                    self.shadow_bif,
                    self.out.len()
                ),
            );
        }
        self.stats.max_cwnd = self.stats.max_cwnd.max(cwnd);
        self.stats.max_bif = self.stats.max_bif.max(bif);
    }

    /// the oracle, evaluated after every controller call
    fn check(&mut self, call: Call, cwnd_before: u64, bif_before: u64) {
        self.calls += 1;
        *self.stats.events.entry(call.name()).or_insert(0) += 1;
        self.check_static(call.name());
        let cwnd = self.cc.congestion_window() as u64;

        // periodic full recount of the shadow (the running sum itself is checked for drift)
        if self.calls % 64 == 0 {
            let sum: u64 =
                self.out.values().map(|p| p.bytes as u64).sum::<u64>() + self.pending_acked;
            if sum != self.shadow_bif {
                // harness bookkeeping error, not a library defect
                panic!("shadow drift: running {} recount {}", self.shadow_bif, sum);
            }
        }

        // O2: wrap / overflow detector
        let allowed = match call {
            // BBR may first restore a previously attained cwnd (leaving ProbeRTT) and then add
            // the newly acknowledged bytes in the same call
            Call::Ack { bytes, .. } => cwnd_before.max(self.hi_water) + bytes + 1,
            Call::Mtu { old, new } => {
                // cwnd_before is a truncated f32 for CUBIC: allow one byte before scaling and
                // f32 rounding (2^-23 relative) after it
                let scaled = ((cwnd_before + 1) * new as u64).div_ceil(old as u64);
                let scaled = scaled + scaled / 100_000 + 16;
                // RFC 9002 7.2 initial window upper bound for the new datagram size
                scaled.max(10 * new as u64).max(self.hi_water)
            }
            _ => cwnd_before.max(self.hi_water),
        };
        if cwnd > allowed {
            self.set_fail(
                "cwnd_implausible_jump",
                format!(
                    "{}: cwnd {cwnd_before} -> {cwnd}, more than the call can justify (bound {allowed})",
                    call.name()
                ),
            );
        }
        self.hi_water = self.hi_water.max(cwnd);

        if self.kind != Kind::Cubic {
            if let Call::Lost { pc: true, .. } = call {
                // BBRv2 does not define a persistent-congestion response; counted only
                self.stats.pc_episodes += 1;
            }
            return;
        }

        match call {
            Call::Lost { pc, sent_us } => {
                if cwnd > cwnd_before {
                    self.set_fail(
                        "loss_increased_cwnd",
                        format!("on_packet_lost raised cwnd {cwnd_before} -> {cwnd}"),
                    );
                }
                if pc {
                    self.stats.pc_episodes += 1;
                    let min = self.kind.min_window(self.mtu);
                    if cwnd != min {
                        self.set_fail(
                            "persistent_congestion_not_minimum",
                            format!("persistent congestion left cwnd {cwnd}, minimum window is {min}"),
                        );
                    }
                    // RFC 9002 B.8: congestion_recovery_start_time = 0
                    self.recovery_start_us = None;
                    self.last_recovery_start_us = None;
                } else {
                    self.on_congestion_signal(cwnd_before, cwnd, Some(sent_us), "on_packet_lost");
                }
            }
            Call::Ecn => {
                if cwnd > cwnd_before {
                    self.set_fail(
                        "ecn_increased_cwnd",
                        format!("on_explicit_congestion raised cwnd {cwnd_before} -> {cwnd}"),
                    );
                }
                self.on_congestion_signal(cwnd_before, cwnd, None, "on_explicit_congestion");
            }
            Call::Ack { newest_sent_us, .. } => {
                // O6
                let mtu = self.mtu as u64;
                let still_under_utilised = 2 * bif_before + 2 < cwnd_before
                    && cwnd_before - bif_before > 3 * mtu;
                if self.clearly_app_limited && still_under_utilised {
                    self.stats.app_limited_holds += 1;
                    self.stats.shape |= shape::APP_LIMITED_HOLD;
                    if cwnd > cwnd_before {
                        self.set_fail(
                            "growth_while_app_limited",
                            format!(
                                "on_ack grew cwnd {cwnd_before} -> {cwnd} although the last send was app_limited=Some(true) with bytes_in_flight {bif_before} < cwnd/2 and > 3 datagrams of room"
                            ),
                        );
                    }
                }
                // RFC 9002 7.3.2: the period ends when a packet sent during it is acknowledged
                if let Some(start) = self.recovery_start_us {
                    if newest_sent_us > start {
                        self.recovery_start_us = None;
                    }
                }
            }
            _ => {}
        }
    }

    fn on_congestion_signal(
        &mut self,
        cwnd_before: u64,
        cwnd: u64,
        lost_sent_us: Option<u64>,
        call: &str,
    ) {
        if self.recovery_start_us.is_some() {
            self.stats.losses_in_recovery += 1;
            self.stats.shape |= shape::LOSS_IN_RECOVERY;
        }
        if cwnd >= cwnd_before {
            return; // no reduction observed (already in recovery, or already at the minimum)
        }
        if let Some(start) = self.recovery_start_us {
            self.set_fail(
                "second_reduction_in_recovery_period",
                format!(
                    "{call} reduced cwnd {cwnd_before} -> {cwnd} at t={}us although the recovery period begun at t={start}us has not ended (no packet sent after its start was acknowledged)",
                    self.now_us
                ),
            );
            return;
        }
        if let (Some(prev), Some(sent)) = (self.last_recovery_start_us, lost_sent_us) {
            if sent <= prev {
                // RFC 9002 appendix B.6 (informative pseudo-code) keys the recovery period by the
                // send time of the lost packet and would not reduce here.  The normative text
                // (7.3.2) and the property only limit reductions to one per recovery period /
                // round trip, which still holds (a packet sent after `prev` has been acked).
                // Counted; a violation only with --strict-appendix-b.
                self.stats.shape |= shape::LOSS_PRE_RECOVERY_PKT;
                self.stats.appendix_b_deviations += 1;
                if self.strict_appendix_b {
                    self.set_fail(
                        "reduction_for_packet_sent_before_recovery_start",
                        format!(
                            "{call} reduced cwnd {cwnd_before} -> {cwnd} for a packet sent at t={sent}us, i.e. before the previous recovery period started at t={prev}us (RFC 9002 B.6 InCongestionRecovery(sent_time))"
                        ),
                    );
                    return;
                }
            }
        }
        self.recovery_start_us = Some(self.now_us);
        self.last_recovery_start_us = Some(self.now_us);
        self.stats.recovery_episodes += 1;
        self.stats.shape |= shape::RECOVERY;
    }

    fn before(&self) -> (u64, u64) {
        (
            self.cc.congestion_window() as u64,
            self.cc.bytes_in_flight() as u64,
        )
    }

    // ---- operations -------------------------------------------------------------------

    fn advance(&mut self, us: u64) {
        self.now_us += us;
    }

    fn op_advance(&mut self) {
        let us = match self.rng.below(20) {
            0 => {
                self.stats.shape |= shape::IDLE;
                self.rng.range(1_000_000, 30_000_000)
            }
            1..=4 => self.rng.range(10_000, 400_000),
            5..=12 => self.rng.range(100, 10_000),
            _ => self.rng.range(0, 100),
        };
        self.advance(us);
        *self.stats.events.entry("advance_time").or_insert(0) += 1;
    }

    fn op_send_burst(&mut self) {
        let count = if self.tiny {
            self.rng.range(1, 3)
        } else if self.clean {
            self.rng.range(1, 48)
        } else {
            self.rng.range(1, 10)
        };
        for _ in 0..count {
            if self.fail.is_some() {
                return;
            }
            if self.out.len() >= MAX_OUTSTANDING || self.shadow_bif >= MAX_SHADOW_BIF {
                return;
            }
            let limited = self.cc.is_congestion_limited();
            let fast = self.cc.requires_fast_retransmission();
            // RFC 9002 7.5: probe packets are not blocked by the congestion controller
            let probe = self.rng.chance(1, 24);
            let bytes: u32 = match self.rng.below(16) {
                0 => 0, // pure ACK packet: not congestion controlled
                1..=8 => self.mtu as u32,
                9..=10 => self.rng.range(1, 64) as u32,
                _ => self.rng.range(20, self.mtu as u64) as u32,
            };
            if bytes > 0 && limited && !fast && !probe {
                return;
            }
            if bytes > 0 && limited {
                self.stats.shape |= if fast {
                    shape::FAST_RETX
                } else {
                    shape::PROBE_OVER_CWND
                };
            }
            let pace = match self.rng.below(4) {
                0 => 0,
                1 => self.rng.range(1, 20),
                _ => self.rng.range(1, 400),
            };
            self.advance(pace);
            let handshake = self.handshake_sends_left > 0;
            let app_limited = if handshake {
                self.handshake_sends_left -= 1;
                None
            } else {
                self.confirmed = true;
                if self.rng.chance(1, 20) {
                    Some(self.rng.chance(1, 2))
                } else {
                    Some(self.app_limited_phase)
                }
            };
            let mtu_probe = bytes > 0 && !handshake && self.rng.chance(1, 60);
            let (cw, bf) = self.before();
            let now = ts(self.now_us);
            let info = self
                .cc
                .on_packet_sent(now, bytes as usize, app_limited, &self.rtt, &mut self.publ);
            let pn = self.next_pn;
            self.next_pn += 1;
            self.out.insert(
                pn,
                Pkt {
                    bytes,
                    sent_us: self.now_us,
                    info,
                    handshake,
                    mtu_probe,
                },
            );
            self.shadow_bif += bytes as u64;
            self.stats.shape |= if bytes == 0 {
                shape::SEND_ZERO
            } else {
                shape::SEND
            };
            if bytes > 0 {
                let cwnd = self.cc.congestion_window() as u64;
                let bif = self.shadow_bif;
                self.clearly_app_limited = app_limited == Some(true)
                    && 2 * bif + 2 < cwnd
                    && cwnd - bif > 3 * self.mtu as u64;
            }
            trace!(self, 
                "send pn={pn} bytes={bytes} app_limited={app_limited:?} limited={limited} fast={fast} -> cwnd={} bif={}",
                self.cc.congestion_window(),
                self.cc.bytes_in_flight()
            );
            self.check(Call::Sent, cw, bf);
        }
    }

    fn pick_outstanding(&mut self) -> Option<u64> {
        let lo = *self.out.keys().next()?;
        let hi = *self.out.keys().next_back()?;
        // bias towards the old end: ACKs mostly arrive in order
        let k = if self.rng.chance(2, 3) {
            lo + self.rng.below((hi - lo).min(8) + 1)
        } else {
            self.rng.range(lo, hi)
        };
        self.out.range(k..).next().map(|(k, _)| *k)
    }

    fn lose(&mut self, pns: &[u64], pc: bool) {
        let mut prev: Option<u64> = None;
        for &pn in pns {
            if self.fail.is_some() {
                return;
            }
            let Some(p) = self.out.remove(&pn) else { continue };
            let new_burst = prev.is_none_or(|q| pn != q + 1);
            prev = Some(pn);
            if p.bytes == 0 {
                continue; // recovery::Manager does not report non-congestion-controlled packets
            }
            let (cw, bf) = self.before();
            let now = ts(self.now_us);
            self.shadow_bif -= p.bytes as u64;
            if p.mtu_probe {
                // RFC 9000 14.4: loss of a PMTU probe is not a congestion signal
                self.stats.shape |= shape::MTU_PROBE_LOST;
                self.cc.on_packet_discarded(p.bytes as usize, &mut self.publ);
                trace!(self, "lost mtu-probe pn={pn} -> discard {}", p.bytes);
                self.check(Call::Discard, cw, bf);
                continue;
            }
            self.cc.on_packet_lost(
                p.bytes,
                p.info,
                pc,
                new_burst,
                &mut self.gen,
                now,
                &mut self.publ,
            );
            self.stats.shape |= shape::LOSS;
            if pc {
                self.stats.shape |= shape::PC;
                // recovery::Manager: min_rtt is re-seeded after persistent congestion
                self.rtt.on_persistent_congestion();
            }
            trace!(self, 
                "lost pn={pn} bytes={} sent_at={} pc={pc} new_burst={new_burst} -> cwnd {cw} -> {}",
                p.bytes,
                p.sent_us,
                self.cc.congestion_window()
            );
            self.check(
                Call::Lost {
                    pc,
                    sent_us: p.sent_us,
                },
                cw,
                bf,
            );
        }
    }

    /// recovery::persistent_congestion::Calculator fed with one loss-detection pass, against a
    /// batch model of RFC 9002 7.6.2: the longest stretch between two ack-eliciting lost packets
    /// with nothing but lost packets (consecutive packet numbers) between them
    fn check_pc_calculator(&mut self, pns: &[u64]) {
        use s2n_quic_core::{
            frame::ack_elicitation::AckElicitation, inet::ExplicitCongestionNotification, path,
            recovery::{persistent_congestion::Calculator, SentPacketInfo},
            transmission, varint::VarInt,
        };
        let first = self.rtt.first_rtt_sample();
        let mut calc = Calculator::new(first, path::Id::test_id());
        // (pn, sent_us, ack-eliciting) of the packets the calculator may count
        let mut eligible: Vec<(u64, u64, bool)> = Vec::new();
        for &pn in pns {
            let Some(p) = self.out.get(&pn) else { continue };
            let ae = p.bytes > 0;
            let info = SentPacketInfo::new(
                ae,
                p.bytes as usize,
                ts(p.sent_us),
                if ae { AckElicitation::Eliciting } else { AckElicitation::NonEliciting },
                path::Id::test_id(),
                ExplicitCongestionNotification::default(),
                if p.mtu_probe { transmission::Mode::MtuProbing } else { transmission::Mode::Normal },
                (),
            );
            calc.on_lost_packet(PacketNumberSpace::ApplicationData.new_packet_number(VarInt::new(pn).unwrap()), &info);
            if !p.mtu_probe && first.is_some_and(|f| ts(p.sent_us) >= f) {
                eligible.push((pn, p.sent_us, ae));
            }
        }
        let mut want = 0u64;
        let mut i = 0;
        while i < eligible.len() {
            let mut j = i;
            while j + 1 < eligible.len() && eligible[j + 1].0 == eligible[j].0 + 1 {
                j += 1;
            }
            let run = &eligible[i..=j];
            if let (Some(a), Some(b)) = (run.iter().find(|e| e.2), run.iter().rev().find(|e| e.2)) {
                want = want.max(b.1 - a.1);
            }
            i = j + 1;
        }
        let runs = {
            let mut n = 0;
            let mut prev = None;
            for e in &eligible {
                if prev != Some(e.0.wrapping_sub(1)) {
                    n += 1;
                }
                prev = Some(e.0);
            }
            n
        };
        self.stats.pc_batches += 1;
        if runs >= 2 {
            self.stats.pc_multi_run_batches += 1;
        }
        let got = calc.persistent_congestion_duration().as_micros() as u64;
        let thr = self.rtt.persistent_congestion_threshold().as_micros() as u64;
        if want > thr {
            self.stats.pc_over_threshold += 1;
            if runs >= 2 {
                self.stats.pc_over_threshold_multi_run += 1;
            }
        }
        if got != want {
            self.set_fail(
                "persistent_congestion_duration",
                format!("persistent_congestion::Calculator reports {got} us for the lost packets {:?} (pn, sent_us, ack-eliciting), the longest run of consecutive lost packets spans {want} us (threshold {thr} us)", eligible),
            );
        }
    }

    fn decide_pc(&mut self, pns: &[u64]) -> bool {
        if self.rtt.first_rtt_sample().is_none() {
            return false; // RFC 9002 7.6.2: needs a prior RTT sample
        }
        self.check_pc_calculator(pns);
        let ack_eliciting: Vec<u64> = pns
            .iter()
            .filter_map(|pn| self.out.get(pn))
            .filter(|p| p.bytes > 0)
            .map(|p| p.sent_us)
            .collect();
        if ack_eliciting.len() >= 2 {
            let span = ack_eliciting[ack_eliciting.len() - 1] - ack_eliciting[0];
            if Duration::from_micros(span) > self.rtt.persistent_congestion_threshold() {
                return true;
            }
        }
        self.rng.chance(1, 25)
    }

    /// one ACK frame, processed in recovery::Manager order
    fn op_ack_frame(&mut self) {
        let Some(top) = self.pick_outstanding() else { return };
        // the acked set: `top` and up to m older outstanding packets, with gaps
        let m = match self.rng.below(8) {
            0 => self.rng.range(8, 64),
            1..=3 => self.rng.range(1, 8),
            _ => 0,
        } as usize;
        let mut set: Vec<u64> = vec![top];
        for (pn, _) in self.out.range(..top).rev().take(m) {
            if self.rng.chance(4, 5) {
                set.push(*pn);
            }
        }
        set.sort_unstable();
        // time moves on so that the ack is received strictly after the newest acked was sent
        let dt = match self.rng.below(6) {
            0 => self.rng.range(1, 50),
            1..=3 => self.rng.range(50, 30_000),
            _ => self.rng.range(1_000, 300_000),
        };
        self.advance(dt);
        let newest = *set.last().unwrap();
        let (newest_sent_us, newest_info, newest_bytes) = {
            let p = &self.out[&newest];
            (p.sent_us, p.info, p.bytes)
        };
        if self.now_us <= newest_sent_us {
            self.now_us = newest_sent_us + 1;
        }
        let now = ts(self.now_us);
        let new_largest = self.largest_acked.is_none_or(|l| newest > l);
        if !new_largest {
            self.stats.shape |= shape::REORDERED_ACK;
        }
        let includes_ack_eliciting = set.iter().any(|pn| self.out[pn].bytes > 0);

        // RFC 9002 5.1: RTT sample only if the largest acknowledged is newly acked and at least
        // one newly acked packet is ack-eliciting
        if new_largest && includes_ack_eliciting {
            let sample = Duration::from_micros(self.now_us - newest_sent_us);
            let ack_delay = match self.rng.below(4) {
                0 => Duration::ZERO,
                1 => Duration::from_micros(self.rng.range(0, 25_000)),
                2 => Duration::from_micros(self.rng.range(0, sample.as_micros() as u64 + 1)),
                _ => Duration::from_micros(self.rng.range(0, 200_000)),
            };
            let space = if self.confirmed {
                PacketNumberSpace::ApplicationData
            } else if self.rng.chance(1, 2) {
                PacketNumberSpace::Initial
            } else {
                PacketNumberSpace::Handshake
            };
            self.rtt
                .update_rtt(ack_delay, sample, now, self.confirmed, space);
            let (cw, bf) = self.before();
            self.cc
                .on_rtt_update(ts(newest_sent_us), now, &self.rtt, &mut self.publ);
            self.stats.shape |= shape::RTT;
            trace!(self, 
                "rtt sample={sample:?} ack_delay={ack_delay:?} -> srtt={:?} min={:?}",
                self.rtt.smoothed_rtt(),
                self.rtt.min_rtt()
            );
            self.check(Call::Rtt, cw, bf);
        }
        if new_largest {
            self.largest_acked = Some(newest);
        }

        // take the acked packets out of the outstanding set; the controller learns about them
        // only in on_ack, so they stay in the shadow sum until then
        let mut acked: Vec<(u64, u32, u64, CC::PacketInfo)> = Vec::with_capacity(set.len());
        for pn in &set {
            let p = self.out.remove(pn).unwrap();
            self.pending_acked += p.bytes as u64;
            acked.push((*pn, p.bytes, p.sent_us, p.info));
        }
        let _ = (newest_info, newest_bytes);

        // loss detection runs before on_ack (recovery::Manager::process_new_acked_packets)
        if self.rng.chance(1, if self.clean { 60 } else { 3 }) {
            self.op_detect_losses(false);
        }
        // ECN-CE reported by this ACK frame
        if new_largest && self.rng.chance(1, if self.clean { 200 } else { 12 }) {
            self.op_ecn(acked.len() as u64);
        }
        if self.fail.is_some() {
            return;
        }

        let total: u64 = acked.iter().map(|a| a.1 as u64).sum();
        if total == 0 {
            self.pending_acked = 0;
            return;
        }
        let now = ts(self.now_us);
        if self.rng.chance(5, 6) {
            // one aggregated call carrying the newest acknowledged packet's info
            let (cw, bf) = self.before();
            let (_, _, sent_us, info) = *acked.last().unwrap();
            self.shadow_bif -= total;
            self.pending_acked = 0;
            self.cc.on_ack(
                ts(sent_us),
                total as usize,
                info,
                &self.rtt,
                &mut self.gen,
                now,
                &mut self.publ,
            );
            self.stats.shape |= shape::ACK;
            trace!(self, 
                "ack pns={:?}..={newest} n={} bytes={total} newest_sent={sent_us} -> cwnd {cw} -> {} bif={}",
                set.first().unwrap(),
                set.len(),
                self.cc.congestion_window(),
                self.cc.bytes_in_flight()
            );
            self.check(
                Call::Ack {
                    bytes: total,
                    newest_sent_us: sent_us,
                },
                cw,
                bf,
            );
        } else {
            // "it is possible this method may be called multiple times for one acknowledgement"
            for (pn, bytes, sent_us, info) in acked {
                if bytes == 0 {
                    continue;
                }
                if self.fail.is_some() {
                    return;
                }
                let (cw, bf) = self.before();
                self.shadow_bif -= bytes as u64;
                self.pending_acked -= bytes as u64;
                self.cc.on_ack(
                    ts(sent_us),
                    bytes as usize,
                    info,
                    &self.rtt,
                    &mut self.gen,
                    now,
                    &mut self.publ,
                );
                self.stats.shape |= shape::ACK | shape::ACK_SPLIT;
                trace!(self, 
                    "ack(split) pn={pn} bytes={bytes} -> cwnd {cw} -> {}",
                    self.cc.congestion_window()
                );
                self.check(
                    Call::Ack {
                        bytes: bytes as u64,
                        newest_sent_us: sent_us,
                    },
                    cw,
                    bf,
                );
            }
            self.pending_acked = 0;
        }
    }

    /// declare some packets sent before the largest acknowledged packet lost
    fn op_detect_losses(&mut self, timer: bool) {
        let Some(largest) = self.largest_acked else { return };
        let cands: Vec<u64> = self.out.range(..largest).map(|(k, _)| *k).collect();
        if cands.is_empty() {
            return;
        }
        let mut pns: Vec<u64> = Vec::new();
        match self.rng.below(3) {
            0 => {
                // packet threshold: everything at least 3 below the largest acknowledged
                pns.extend(cands.iter().copied().filter(|pn| pn + 3 <= largest));
            }
            1 => {
                // time threshold: a prefix (oldest first)
                let n = self.rng.range(1, cands.len().min(12) as u64) as usize;
                pns.extend(cands.iter().copied().take(n));
            }
            _ => {
                for pn in cands.iter().copied().take(32) {
                    if self.rng.chance(1, 2) {
                        pns.push(pn);
                    }
                }
            }
        }
        if pns.is_empty() {
            return;
        }
        if timer {
            self.stats.shape |= shape::LOSS_TIMER;
        }
        if let (Some(prev), Some(first)) = (self.last_recovery_start_us, pns.first()) {
            if self.recovery_start_us.is_none() && self.out[first].sent_us <= prev {
                self.stats.shape |= shape::LOSS_PRE_RECOVERY_PKT;
            }
        }
        let pc = self.decide_pc(&pns);
        self.lose(&pns, pc);
    }

    fn op_ecn(&mut self, max_ce: u64) {
        let ce = self.rng.range(1, max_ce.max(1));
        let (cw, bf) = self.before();
        self.cc
            .on_explicit_congestion(ce, ts(self.now_us), &mut self.publ);
        self.stats.shape |= shape::ECN;
        trace!(self, 
            "ecn ce={ce} -> cwnd {cw} -> {}",
            self.cc.congestion_window()
        );
        self.check(Call::Ecn, cw, bf);
    }

    fn op_mtu(&mut self) {
        let new: u16 = match self.rng.below(8) {
            0 => 1200,
            1 => 9000,
            2 => 1500,
            3 => 1472,
            _ => self.rng.range(1200, 9000) as u16,
        };
        let old = self.mtu;
        if new == old {
            return;
        }
        let (cw, bf) = self.before();
        self.cc.on_mtu_update(new, &mut self.publ);
        self.mtu = new;
        self.stats.shape |= if new > old {
            shape::MTU_UP
        } else {
            shape::MTU_DOWN
        };
        trace!(self, 
            "mtu {old} -> {new}: cwnd {cw} -> {}",
            self.cc.congestion_window()
        );
        self.check(Call::Mtu { old, new }, cw, bf);
    }

    fn op_discard(&mut self) {
        // a packet number space is discarded: all its outstanding packets leave flight
        let pns: Vec<u64> = self
            .out
            .iter()
            .filter(|(_, p)| p.handshake)
            .map(|(k, _)| *k)
            .collect();
        let pns = if pns.is_empty() {
            // Retry / 0-RTT rejection style: a random outstanding packet is dropped
            match self.pick_outstanding() {
                Some(pn) => vec![pn],
                None => return,
            }
        } else {
            pns
        };
        let single_call = self.rng.chance(1, 2);
        let mut total = 0u64;
        for pn in &pns {
            let p = self.out.remove(pn).unwrap();
            total += p.bytes as u64;
            if !single_call {
                let (cw, bf) = self.before();
                self.shadow_bif -= p.bytes as u64;
                self.cc
                    .on_packet_discarded(p.bytes as usize, &mut self.publ);
                trace!(self, "discard pn={pn} bytes={}", p.bytes);
                self.check(Call::Discard, cw, bf);
                if self.fail.is_some() {
                    return;
                }
            }
        }
        if single_call {
            let (cw, bf) = self.before();
            self.shadow_bif -= total;
            self.cc.on_packet_discarded(total as usize, &mut self.publ);
            trace!(self, "discard {} packets, bytes={total}", pns.len());
            self.check(Call::Discard, cw, bf);
        }
        self.handshake_sends_left = 0;
        self.stats.shape |= shape::DISCARD;
    }

    fn step(&mut self) {
        if self.rng.chance(1, 40) {
            self.app_limited_phase = !self.app_limited_phase;
        }
        let mut r = self.rng.below(100);
        if self.clean && (70..=77).contains(&r) && !self.rng.chance(1, 16) {
            r = 50; // an ACK frame instead of a loss-timer expiry
        }
        if self.clean && (93..=97).contains(&r) && !self.rng.chance(1, 6) {
            r = 0; // keep sending instead of MTU changes / discards
        }
        if self.app_limited_phase {
            // application limited: short bursts, promptly acknowledged
            match r {
                0..=24 => {
                    let n = self.rng.range(1, 2);
                    for _ in 0..n {
                        self.op_send_one_app_limited();
                    }
                }
                25..=69 => self.op_ack_frame(),
                70..=74 => {
                    self.op_detect_losses(true);
                }
                75..=92 => self.op_advance(),
                93..=95 => self.op_mtu(),
                96..=97 => self.op_discard(),
                _ => self.op_send_burst(),
            }
        } else {
            match r {
                0..=37 => self.op_send_burst(),
                38..=69 => self.op_ack_frame(),
                70..=77 => {
                    self.op_detect_losses(true);
                }
                78..=92 => self.op_advance(),
                93..=95 => self.op_mtu(),
                96..=97 => self.op_discard(),
                _ => self.op_ack_frame(),
            }
        }
    }

    fn op_send_one_app_limited(&mut self) {
        // identical to a burst of one, but never a probe and always flagged app limited
        if self.out.len() >= MAX_OUTSTANDING || self.cc.is_congestion_limited() {
            return;
        }
        let bytes = self.rng.range(20, self.mtu as u64) as u32;
        let pace = self.rng.range(0, 2_000);
        self.advance(pace);
        let (cw, bf) = self.before();
        let handshake = false;
        self.confirmed = true;
        self.handshake_sends_left = 0;
        let info = self.cc.on_packet_sent(
            ts(self.now_us),
            bytes as usize,
            Some(true),
            &self.rtt,
            &mut self.publ,
        );
        let pn = self.next_pn;
        self.next_pn += 1;
        self.out.insert(
            pn,
            Pkt {
                bytes,
                sent_us: self.now_us,
                info,
                handshake,
                mtu_probe: false,
            },
        );
        self.shadow_bif += bytes as u64;
        self.stats.shape |= shape::SEND;
        let cwnd = self.cc.congestion_window() as u64;
        let bif = self.shadow_bif;
        self.clearly_app_limited = 2 * bif + 2 < cwnd && cwnd - bif > 3 * self.mtu as u64;
        trace!(self, 
            "send(app-limited) pn={pn} bytes={bytes} -> cwnd={cwnd} bif={bif} clearly={}",
            self.clearly_app_limited
        );
        self.check(Call::Sent, cw, bf);
    }
}

struct Outcome {
    fail: Option<Fail>,
    stats: Stats,
    publ: Pub,
    calls: u64,
    trace: Vec<String>,
    mtu0: u16,
}

fn drive<CC: CongestionController>(
    kind: Kind,
    cc: CC,
    mtu: u16,
    rng: Rng,
    target_calls: u64,
    verbose: bool,
    strict: bool,
) -> Outcome {
    let mut h = Hist::new(kind, cc, mtu, rng, verbose, strict);
    let mut guard = 0u64;
    if target_calls < 40 {
        h.tiny = true;
        // tiny (Miri) histories: a fixed prologue so that the few calls that fit reach an ack,
        // an RTT sample and a loss declaration; the random part follows
        h.op_send_burst();
        h.op_ack_frame();
        h.op_send_burst();
        h.op_ack_frame();
        h.op_detect_losses(true);
    }
    while h.calls < target_calls && h.fail.is_none() && guard < target_calls * 20 {
        h.step();
        guard += 1;
    }
    Outcome {
        fail: h.fail,
        stats: h.stats,
        publ: h.publ,
        calls: h.calls,
        trace: h.trace,
        mtu0: mtu,
    }
}

fn history_params(p: &Params, index: u64) -> (Rng, Kind, u16, u64) {
    let mut rng = Rng::new(mix(p.seed ^ 0xC10C_10C1, index));
    let kind = if rng.chance(1, 2) {
        Kind::Cubic
    } else {
        Kind::Bbr
    };
    let mtu: u16 = match rng.below(6) {
        0 => 1200,
        1 => 9000,
        2 => 1500,
        _ => rng.range(1200, 9000) as u16,
    };
    let len = if p.miri {
        rng.range(8, 16)
    } else {
        rng.range(300, 3000)
    };
    (rng, kind, mtu, len)
}

pub fn run(p: &Params, sum: &mut Summary) {
    let range: Box<dyn Iterator<Item = u64>> = match p.only {
        Some(i) => Box::new(i..=i),
        None => Box::new(0..p.iters),
    };
    let mut total_calls = 0u64;
    let mut bbr_states_all = 0u16;
    let mut acc = crate::common::Acc::default();
    for index in range {
        let (rng, kind, mtu, len) = history_params(p, index);
        if p.verbose {
            eprintln!("history {index}: controller={} mtu={mtu} target_calls={len}", kind.name());
        }
        let verbose = p.verbose;
        let strict = p.strict_appendix_b;
        let initial_window = if p.huge_initial_window {
            // configuration probe (off by default, see README): application-provided initial
            // congestion window close to u32::MAX through the public endpoint builders
            let mut r = Rng::new(mix(p.seed, index ^ 0x1111));
            Some(u32::MAX - r.range(0, 200_000) as u32)
        } else {
            None
        };
        let res = guarded(move || {
            use s2n_quic_core::recovery::congestion_controller::{Endpoint as _, PathInfo};
            let addr = s2n_quic_core::inet::SocketAddress::default();
            let mut info = PathInfo::new(&s2n_quic_core::path::Config::default(), &addr);
            info.max_datagram_size = mtu;
            match kind {
                Kind::Cubic => {
                    let cc = match initial_window {
                        Some(w) => s2n_quic_core::recovery::cubic::builder::Builder::default()
                            .with_initial_congestion_window(w)
                            .build()
                            .new_congestion_controller(info),
                        None => CubicCongestionController::new(mtu, Default::default()),
                    };
                    drive(kind, cc, mtu, rng, len, verbose, strict)
                }
                Kind::Bbr => {
                    let cc = match initial_window {
                        Some(w) => s2n_quic_core::recovery::bbr::builder::Builder::default()
                            .with_initial_congestion_window(w)
                            .build()
                            .new_congestion_controller(info),
                        None => BbrCongestionController::new(mtu, Default::default()),
                    };
                    drive(kind, cc, mtu, rng, len, verbose, strict)
                }
            }
        });
        sum.evaluations += 1;
        let replay = json!({"check": "cc", "seed": p.seed, "history": index, "mode": p.mode(),
                            "controller": kind.name(), "mtu": mtu, "target_calls": len,
                            "strict_appendix_b": p.strict_appendix_b, "huge_initial_window": p.huge_initial_window});
        match res {
            Err(Caught::Library { loc, msg }) => {
                sum.violation(Violation {
                    property: "C10".into(),
                    signature: format!("cc.{}.{}", kind.name(), panic_sig(&loc, &msg)),
                    what: format!("library panic at {loc}: {msg}"),
                    replay,
                });
            }
            Err(Caught::Harness { loc, msg }) => {
                sum.inconclusive
                    .push(format!("cc history {index}: harness panic at {loc}: {msg}"));
            }
            Ok(o) => {
                total_calls += o.calls;
                let k = kind.name();
                for (name, n) in &o.stats.events {
                    acc.count(k, name, *n);
                }
                acc.count(k, "histories", 1);
                acc.count(k, "recovery_episodes", o.stats.recovery_episodes);
                acc.count(k, "persistent_congestion_episodes",
                    o.stats.pc_episodes,
                );
                acc.count(k, "pc_calculator_batches", o.stats.pc_batches);
                acc.count(k, "pc_calculator_batches_with_several_runs", o.stats.pc_multi_run_batches);
                acc.count(k, "pc_calculator_batches_over_threshold", o.stats.pc_over_threshold);
                acc.count(k, "pc_calculator_batches_over_threshold_with_several_runs", o.stats.pc_over_threshold_multi_run);
                acc.count(k, "acks_checked_while_clearly_app_limited",
                    o.stats.app_limited_holds,
                );
                if kind == Kind::Cubic {
                    acc.count(
                        "cubic",
                        "reductions_for_packets_sent_before_previous_recovery_start(appendix_B6_deviation)",
                        o.stats.appendix_b_deviations,
                    );
                }
                acc.count(k, "congestion_signals_inside_recovery",
                    o.stats.losses_in_recovery,
                );
                acc.count(k, "slow_start_exit.loss", o.publ.ss_exit[0]);
                acc.count(k, "slow_start_exit.ecn", o.publ.ss_exit[1]);
                acc.count(k, "slow_start_exit.rtt", o.publ.ss_exit[2]);
                acc.count(k, "slow_start_exit.other", o.publ.ss_exit[3]);
                acc.count(k, "pacing_rate_updates", o.publ.pacing_updates);
                acc.count(k, "delivery_rate_samples", o.publ.rate_samples);
                if kind == Kind::Bbr {
                    acc.count("bbr", "state_transitions", o.publ.bbr_transitions);
                    bbr_states_all |= o.publ.bbr_states;
                }
                if o.stats.min_margin != i64::MAX {
                    acc.min(k, "min_cwnd_margin_over_minimum", o.stats.min_margin);
                }
                acc.max(k, "max_cwnd", o.stats.max_cwnd as i64);
                acc.max(k, "max_bytes_in_flight", o.stats.max_bif as i64);
                let nontrivial = o.stats.shape & shape::ACK != 0
                    && o.stats.shape & (shape::LOSS | shape::ECN) != 0;
                if nontrivial {
                    let mtu_class = match o.mtu0 {
                        1200 => 0u64,
                        9000 => 2,
                        _ => 1,
                    };
                    let sig = mix(
                        mix(kind as u64, o.stats.shape as u64),
                        mix(o.publ.bbr_states as u64, mtu_class),
                    );
                    sum.signatures.insert(sig);
                } else {
                    sum.trivial += 1;
                }
                if sum.samples.len() < 4 && (nontrivial || p.miri) {
                    sum.sample(json!({"history": index, "controller": k, "mtu": mtu,
                        "calls": o.calls, "shape_bits": format!("{:#x}", o.stats.shape),
                        "last_ops": o.trace}));
                }
                if let Some(f) = o.fail {
                    let mut replay = replay;
                    replay["witness"] = json!(o.trace);
                    sum.violation(Violation {
                        property: "C10".into(),
                        signature: f.sig,
                        what: f.what,
                        replay,
                    });
                }
            }
        }
    }
    acc.flush(sum);
    sum.count("controller_calls_checked", total_calls);
    for (i, name) in BBR_NAMES.iter().enumerate() {
        if bbr_states_all & (1 << i) != 0 {
            sum.set("bbr.states_visited", *name);
        }
    }
    // Startup is the initial state and is never announced through the publisher
    if sum.counters.get("bbr.histories").copied().unwrap_or(0) > 0 {
        sum.set("bbr.states_visited", "Startup(initial)");
    }
    if total_calls == 0 && p.only.is_none() {
        sum.inconclusive.push("cc: no controller call was made".into());
    }
}
