import sys,json
l=sys.stdin.read().split('SUMMARY ',1)[1]
d=json.loads(l)
print('eval',d['evaluations'],'trivial',d['trivial'],'sigs',len(d['signatures']))
if '-c' in sys.argv:
    for k,v in d['counters'].items(): print(' ',k,v)
    print(d['minima'],d['maxima'],d['sets'])
print('inconclusive',len(d['inconclusive']),d['inconclusive'][:3])
for v in d['violations'][:int(sys.argv[-1]) if sys.argv[-1].isdigit() else 8]: print(v['signature'],'|',v['what'][:400],'|',{k:v['replay'].get(k) for k in ('history','controller','mtu')})
print('violations',len(d['violations']), d['counters'].get('violations_truncated',0))
from collections import Counter
print(Counter(v['signature'] for v in d['violations']))
