//! One scenario: build both endpoints inside the simulator, supervise, judge.

use crate::{
    clock::{real_ns, Pacer, VirtualClock},
    net::{now_ns, Net},
    qd::Driver,
    s2n,
    scen::{Role, Scenario, Side},
    state::{Shared, State},
};
use s2n_quic::provider::io::testing::{primary, spawn, test_seed, time::delay};
use std::{
    panic::{catch_unwind, AssertUnwindSafe},
    sync::{Arc, Mutex},
    time::Duration,
};
use vq_util::{json, Value};

#[derive(Clone, Copy, PartialEq, Eq, Debug)]
pub enum ClockMode {
    Virtual,
    Paced,
}

#[derive(Clone, Debug, PartialEq, Eq)]
pub enum End {
    /// everything delivered, connection closed by the planned closer
    Completed { close_seen_by_peer: bool },
    /// an observer reported a problem / an endpoint closed with an error
    Aborted,
    HandshakeTimeout,
    Stall,
    Budget,
    Wall,
    Panic(String),
}

#[derive(Clone, Debug)]
pub enum Verdict {
    Ok,
    Violation { signature: String, what: String },
    Inconclusive(String),
}

pub struct Outcome {
    pub verdict: Verdict,
    pub end: End,
    pub virtual_ns: u64,
    pub wall_ms: u64,
    pub pacer_lag_ms: u64,
    pub pacer_rebases: u64,
    pub state: Shared,
}

struct Bounds {
    handshake_ns: u64,
    stall_ns: u64,
    t_max_ns: u64,
    wall_ns: u64,
    close_linger_ns: u64,
}

fn bounds(mode: ClockMode) -> Bounds {
    const S: u64 = 1_000_000_000;
    match mode {
        // virtual time is free: be generous so that only a genuine deadlock trips the bounds
        ClockMode::Virtual => Bounds {
            handshake_ns: 30 * S,
            stall_ns: 30 * S,
            t_max_ns: 300 * S,
            wall_ns: 240 * S,
            close_linger_ns: 3 * S,
        },
        ClockMode::Paced => Bounds {
            handshake_ns: 15 * S,
            stall_ns: 10 * S,
            t_max_ns: 45 * S,
            wall_ns: 90 * S,
            close_linger_ns: 1 * S,
        },
    }
}

async fn controller(sh: Shared, scn: Arc<Scenario>, mode: ClockMode, end_out: Arc<Mutex<(End, u64, u64)>>) {
    let b = bounds(mode);
    let real0 = real_ns();
    let mut pacer = Pacer::new();
    let mut close_signalled_at: Option<u64> = None;
    let mut abort_at: Option<u64> = None;
    let end;
    loop {
        delay(Duration::from_millis(1)).await;
        let now = now_ns();
        if mode == ClockMode::Paced {
            pacer.tick(now);
        }
        let mut g = sh.lock().unwrap();
        let hs_done = g.q.established_at.is_some() && g.s.connected_at.is_some();

        // an error on either side ends the run (after a moment, so that the other side's
        // view of the same event is recorded too)
        let q_err = g.q.local_error.is_some() || g.q.peer_error.is_some() || g.q.closed || g.q.timed_out;
        let s_err = g.s.closed.is_some();
        let errored = if close_signalled_at.is_some() {
            false // closing is judged below
        } else {
            !g.problems.is_empty() || q_err || s_err
        };
        if errored && abort_at.is_none() {
            abort_at = Some(now + 300_000_000);
        }
        if let Some(t) = abort_at {
            if now >= t {
                end = End::Aborted;
                break;
            }
            continue;
        }

        if let Some(t0) = close_signalled_at {
            // the closer closes; wait until the other side saw it (it may legitimately never
            // see it on a lossy path: CONNECTION_CLOSE is not retransmitted reliably)
            let closer_done = match scn.closer {
                Side::S2n => g.s.close_called,
                Side::Quiche => g.q.close_called,
            };
            let peer_saw = match scn.closer {
                Side::S2n => g.q.peer_error.is_some() || g.q.draining || g.q.closed,
                Side::Quiche => g.s.closed.is_some(),
            };
            let own_event = match scn.closer {
                Side::S2n => g.s.closed.is_some(),
                Side::Quiche => g.q.local_error.is_some(),
            };
            if closer_done && peer_saw && own_event {
                end = End::Completed {
                    close_seen_by_peer: true,
                };
                break;
            }
            if now - t0 > b.close_linger_ns {
                end = End::Completed {
                    close_seen_by_peer: peer_saw,
                };
                break;
            }
            continue;
        }

        if hs_done && g.all_delivered() {
            g.close_now = true;
            close_signalled_at = Some(now);
            g.note(now, "ctl", || "everything delivered; signalling the closer".to_string());
            continue;
        }
        if !hs_done && now > b.handshake_ns {
            end = End::HandshakeTimeout;
            break;
        }
        if hs_done && now.saturating_sub(g.progress_at.max(g.q.established_at.unwrap_or(0))) > b.stall_ns {
            end = End::Stall;
            break;
        }
        if now > b.t_max_ns {
            end = End::Budget;
            break;
        }
        if real_ns() - real0 > b.wall_ns {
            end = End::Wall;
            break;
        }
    }
    {
        let mut g = sh.lock().unwrap();
        g.ending = true;
        g.note(now_ns(), "ctl", || format!("ending: {end:?}"));
    }
    // let the tasks publish their last view
    delay(Duration::from_millis(25)).await;
    *end_out.lock().unwrap() = (end, pacer.lag_ns_total, pacer.rebases);
}

pub fn run(scn: Arc<Scenario>, mode: ClockMode, verbose: bool) -> Outcome {
    let sh = State::new(scn.clone(), verbose);
    let net = Net::new(sh.clone(), scn.net.clone(), scn.q.max_recv_udp);
    let end_out = Arc::new(Mutex::new((End::Panic("controller never finished".into()), 0u64, 0u64)));
    let wall0 = real_ns();
    let res = {
        let sh = sh.clone();
        let scn = scn.clone();
        let end_out = end_out.clone();
        catch_unwind(AssertUnwindSafe(move || {
            test_seed(net, scn.sub, move |handle| {
                let clock = match mode {
                    ClockMode::Virtual => Some(VirtualClock::start()),
                    ClockMode::Paced => None,
                };
                match scn.role {
                    Role::S2nServer => {
                        let addr = s2n::start_server(handle, scn.clone(), sh.clone());
                        let (mut d, _) = Driver::new(handle, scn.clone(), sh.clone(), clock);
                        d.connect(addr);
                        spawn(d.run());
                    }
                    Role::S2nClient => {
                        let (d, qaddr) = Driver::new(handle, scn.clone(), sh.clone(), clock);
                        spawn(d.run());
                        s2n::start_client(handle, scn.clone(), sh.clone(), qaddr);
                    }
                }
                primary::spawn(controller(sh.clone(), scn.clone(), mode, end_out));
                Ok(())
            })
        }))
    };
    let wall_ms = (real_ns() - wall0) / 1_000_000;
    let (mut end, lag, rebases) = end_out.lock().unwrap().clone();
    let mut virtual_ns = 0;
    match res {
        Ok(Ok(d)) => virtual_ns = d.as_nanos() as u64,
        Ok(Err(e)) => end = End::Panic(format!("simulator error: {e}")),
        Err(p) => {
            let msg = p
                .downcast_ref::<String>()
                .cloned()
                .or_else(|| p.downcast_ref::<&str>().map(|s| s.to_string()))
                .unwrap_or_else(|| "panic".into());
            end = End::Panic(msg);
        }
    }
    let verdict = judge(&sh, &scn, &end, mode);
    Outcome {
        verdict,
        end,
        virtual_ns,
        wall_ms,
        pacer_lag_ms: lag / 1_000_000,
        pacer_rebases: rebases,
        state: sh,
    }
}

/// The oracle: both views must agree that the handshake completed, every byte arrived intact
/// with a clean end of stream, and the only close is the planned application close.
fn judge(sh: &Shared, scn: &Scenario, end: &End, mode: ClockMode) -> Verdict {
    let g = match sh.lock() {
        Ok(g) => g,
        Err(p) => p.into_inner(),
    };
    let role = scn.role.name();
    let viol = |kind: String, what: String| Verdict::Violation {
        signature: format!("{role}:{kind}"),
        what,
    };

    if let End::Panic(msg) = end {
        // where did it come from? a panic in the harness' own code is inconclusive
        let ours = msg.contains("vq-interop") || msg.contains("harness") || msg.contains("controller never finished");
        let sig: String = msg.chars().filter(|c| !c.is_ascii_digit()).take(80).collect();
        return if ours {
            Verdict::Inconclusive(format!("harness panic: {msg}"))
        } else {
            viol(format!("panic:{sig}"), format!("panic while running the scenario: {msg}"))
        };
    }

    if let Some(p) = g.problems.iter().find(|p| p.harness) {
        return Verdict::Inconclusive(format!("{}: {}", p.kind, p.what));
    }

    // ---- transport errors, as seen by quiche
    // quiche itself raised a transport error: it judged something s2n-quic sent to be a
    // protocol violation (or failed internally)
    if let Some((false, code, reason)) = &g.q.local_error {
        return viol(
            format!("quiche_raised_transport_error:{code:#x}"),
            format!(
                "quiche closed the connection with transport error {code:#x} ({reason:?}) at {}; quiche recv errors: {:?}; s2n-quic saw: {:?}",
                if g.q.established_at.is_some() { "after the handshake" } else { "during the handshake" },
                g.q.recv_errors, g.s.closed
            ),
        );
    }
    // s2n-quic sent a transport-level CONNECTION_CLOSE
    if let Some((false, code, reason)) = &g.q.peer_error {
        // RFC 9000 10.2.3: an application close that has to go into Initial/Handshake packets is
        // sent as transport APPLICATION_ERROR (0x0c); NO_ERROR is not an error either
        let benign = g.s.close_called && scn.closer == Side::S2n && (*code == 0x0c || *code == 0x00);
        if !benign {
            return viol(
                format!("s2n_sent_transport_close:{code:#x}"),
                format!(
                    "s2n-quic closed the connection with transport error {code:#x} ({reason:?}); its own connection_closed event: {:?}",
                    g.s.closed
                ),
            );
        }
    }
    // ---- the s2n-quic view of the close
    if let Some((class, detail)) = &g.s.closed {
        let planned_local = g.s.close_called && scn.closer == Side::S2n;
        let planned_remote = g.q.close_called && scn.closer == Side::Quiche;
        let ok = if class.starts_with("transport:") {
            // remote NO_ERROR / APPLICATION_ERROR while quiche's application was closing is the
            // RFC 9000 10.2.3 conversion on quiche's side
            planned_remote && (class == "transport:remote:0xc" || class == "transport:remote:0x0")
        } else if class == "closed:local" || class.starts_with("application:local:") {
            planned_local
        } else if let Some(code) = class.strip_prefix("application:remote:") {
            planned_remote && code == scn.close_code.to_string()
        } else if class == "closed:remote" {
            planned_remote
        } else {
            // idle timeout, handshake duration, stateless reset, no valid path ...: nothing in
            // these scenarios (both endpoints alive, fair-lossy path) justifies them
            false
        };
        if !ok {
            let kind = if class.starts_with("transport:local") {
                format!("s2n_raised_transport_error:{}", class.trim_start_matches("transport:local:"))
            } else {
                format!("s2n_connection_closed:{class}")
            };
            return viol(
                kind,
                format!(
                    "s2n-quic connection_closed with {class} {detail} (planned closer: {}, close requested: s2n={} quiche={}); quiche local_error={:?} peer_error={:?}",
                    scn.closer.name(), g.s.close_called, g.q.close_called, g.q.local_error, g.q.peer_error
                ),
            );
        }
    }
    // an application close seen by quiche must be the planned one
    if let Some((true, code, _)) = &g.q.peer_error {
        if !(g.s.close_called && scn.closer == Side::S2n && *code == scn.close_code) {
            return viol(
                format!("s2n_sent_unexpected_application_close:{code}"),
                format!("quiche received an application CONNECTION_CLOSE with code {code}; s2n-quic's application requested close: {}", g.s.close_called),
            );
        }
    }
    if let Some((true, code, _)) = &g.q.local_error {
        if !(g.q.close_called && *code == scn.close_code) {
            return Verdict::Inconclusive(format!("quiche local application error {code} that the harness did not request"));
        }
    }

    // ---- data
    if let Some(p) = g.problems.first() {
        return viol(p.kind.clone(), format!("{} (t={:.3} ms)", p.what, p.t_ns as f64 / 1e6));
    }

    let pending = || {
        let v: Vec<String> = g
            .flows
            .iter()
            .filter(|(_, f)| !(f.fin_seen && f.verified == f.len))
            .map(|((id, from), f)| {
                format!("stream {id} {}->{}: sent {} verified {}/{} fin={}", from.name(), from.other().name(), f.sent, f.verified, f.len, f.fin_seen)
            })
            .collect();
        v.join("; ")
    };

    match end {
        End::Completed { .. } => {
            if g.q.alpn.as_bytes() != crate::qd::ALPN {
                return viol("alpn_mismatch".into(), format!("negotiated ALPN {:?}", g.q.alpn));
            }
            Verdict::Ok
        }
        End::Aborted => Verdict::Inconclusive(format!(
            "run aborted without a classified cause: quiche closed={} timed_out={} s2n closed={:?}",
            g.q.closed, g.q.timed_out, g.s.closed
        )),
        End::HandshakeTimeout => {
            let what = format!(
                "handshake not complete after {} s of virtual time: quiche established={} s2n-quic application connected={} handshake events={:?}; quiche recv errors {:?}; s2n-quic packets dropped {:?} datagrams dropped {:?}; network {:?}",
                bounds(mode).handshake_ns / 1_000_000_000,
                g.q.established_at.is_some(), g.s.connected_at.is_some(), g.s.handshake,
                g.q.recv_errors, g.s.packets_dropped, g.s.datagrams_dropped, g.net
            );
            let who = match (g.q.established_at.is_some(), g.s.connected_at.is_some()) {
                (false, false) => "neither",
                (true, false) => "s2n_incomplete",
                (false, true) => "quiche_incomplete",
                _ => "both",
            };
            viol(format!("handshake_timeout:{who}"), what)
        }
        End::Stall
            if g.net.max_len[0] > scn.s2n.max_mtu as usize
                && g.s.packets_dropped.get("DecryptionFailed").copied().unwrap_or(0) > 0 =>
        {
            // known finding, role independent: see README "rx_truncation_unadvertised_limit"
            Verdict::Violation {
                signature: "rx_truncation_unadvertised_limit".into(),
                what: format!(
                    "s2n-quic (max_mtu {}) advertised the default max_udp_payload_size (65527) but its receive buffer holds {} bytes: quiche's {}-byte datagrams are truncated and dropped as DecryptionFailed ({} times), the transfer cannot finish; pending: {}",
                    scn.s2n.max_mtu, scn.s2n.max_mtu, g.net.max_len[0],
                    g.s.packets_dropped.get("DecryptionFailed").copied().unwrap_or(0), pending()
                ),
            }
        }
        End::Stall => viol(
            "stall".into(),
            format!(
                "no stream progress for {} s of virtual time with both endpoints alive on a fair-lossy path; pending: {}; quiche blocked episodes {} stream-limit waits {}; s2n frames sent {:?} received {:?}",
                bounds(mode).stall_ns / 1_000_000_000, pending(), g.q.send_blocked_episodes, g.q.stream_limit_waits, g.s.frames_sent, g.s.frames_recv
            ),
        ),
        End::Budget => Verdict::Inconclusive(format!("virtual-time budget exhausted while still progressing; pending: {}", pending())),
        End::Wall => Verdict::Inconclusive(format!("wall-clock watchdog; pending: {}", pending())),
        End::Panic(_) => unreachable!(),
    }
}

pub fn witness(scn: &Scenario, o: &Outcome, mode: ClockMode) -> Value {
    let g = match o.state.lock() {
        Ok(g) => g,
        Err(p) => p.into_inner(),
    };
    json!({
        "seed": scn.seed,
        "index": scn.index,
        "clock": if mode == ClockMode::Virtual { "virtual" } else { "paced" },
        "scenario": scn.to_json(),
        "end": format!("{:?}", o.end),
        "virtual_ms": o.virtual_ns / 1_000_000,
        "quiche_view": format!("{:?}", g.q),
        "s2n_view": format!("{:?}", g.s),
        "problems": g.problems.iter().map(|p| json!({"kind": p.kind, "what": p.what, "t_ms": p.t_ns as f64 / 1e6})).collect::<Vec<_>>(),
        "flows": g.flows.iter().map(|((id, from), f)| json!({
            "stream": id, "from": from.name(), "len": f.len, "sent": f.sent, "verified": f.verified, "fin_seen": f.fin_seen,
        })).collect::<Vec<_>>(),
        "datagrams_total": g.log_total,
        "datagram_log_head": g.log_head,
        "datagram_log_tail": g.log_tail.iter().cloned().collect::<Vec<_>>(),
    })
}
