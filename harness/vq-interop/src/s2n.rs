//! The s2n-quic endpoint under test: built from the public API on the testing IO provider,
//! observed through an event subscriber and through what its application API returns.

use crate::{
    net::now_ns,
    scen::{Role, S2nCfg, Scenario, Side, StreamPlan, DEFAULT_WINDOW},
    state::Shared,
};
use bytes::Bytes;
use s2n_quic::{
    client::Connect,
    connection::{Handle, StreamAcceptor},
    provider::{
        event::{self, events},
        io::testing::{spawn, time::delay, Handle as IoHandle},
        limits::Limits,
    },
    stream::{PeerStream, ReceiveStream, SendStream},
    Client, Server,
};
use s2n_quic_core::crypto::tls::testing::certificates;
use std::{net::SocketAddr, sync::Arc, time::Duration};
use vq_util::Rng;

// ---------------------------------------------------------------------------
// deterministic random provider

pub struct Random(pub Rng);

impl s2n_quic::provider::random::Provider for Random {
    type Generator = Self;
    type Error = core::convert::Infallible;
    fn start(self) -> Result<Self::Generator, Self::Error> {
        Ok(self)
    }
}

impl s2n_quic::provider::random::Generator for Random {
    fn public_random_fill(&mut self, dest: &mut [u8]) {
        self.0.fill(dest)
    }
    fn private_random_fill(&mut self, dest: &mut [u8]) {
        self.0.fill(dest)
    }
}

// ---------------------------------------------------------------------------
// event subscriber

pub struct Sub {
    pub sh: Shared,
}

pub fn classify(e: &s2n_quic::connection::Error) -> (String, String) {
    use s2n_quic::connection::Error as E;
    use s2n_quic_core::endpoint::Location;
    let loc = |l: &Location| if matches!(l, Location::Local) { "local" } else { "remote" };
    match e {
        E::Closed { initiator, .. } => (format!("closed:{}", loc(initiator)), String::new()),
        E::Transport {
            code,
            frame_type,
            reason,
            initiator,
            ..
        } => (
            format!("transport:{}:{:#x}", loc(initiator), code.as_u64()),
            format!("frame_type={frame_type:?} reason={reason:?}"),
        ),
        E::Application {
            error, initiator, ..
        } => {
            let c: u64 = (*error).into();
            (format!("application:{}:{c}", loc(initiator)), String::new())
        }
        E::StatelessReset { .. } => ("stateless_reset".into(), String::new()),
        E::IdleTimerExpired { .. } => ("idle_timeout".into(), String::new()),
        E::NoValidPath { .. } => ("no_valid_path".into(), String::new()),
        E::MaxHandshakeDurationExceeded { .. } => ("max_handshake_duration".into(), String::new()),
        E::ImmediateClose { reason, .. } => ("immediate_close".into(), reason.to_string()),
        E::EndpointClosing { .. } => ("endpoint_closing".into(), String::new()),
        other => ("other".into(), format!("{other}")),
    }
}

fn frame_name(f: &events::Frame) -> &'static str {
    use events::Frame as F;
    match f {
        F::Padding { .. } => "PADDING",
        F::Ping { .. } => "PING",
        F::Ack { .. } => "ACK",
        F::ResetStream { .. } => "RESET_STREAM",
        F::StopSending { .. } => "STOP_SENDING",
        F::Crypto { .. } => "CRYPTO",
        F::NewToken { .. } => "NEW_TOKEN",
        F::Stream { .. } => "STREAM",
        F::MaxData { .. } => "MAX_DATA",
        F::MaxStreamData { .. } => "MAX_STREAM_DATA",
        F::MaxStreams { .. } => "MAX_STREAMS",
        F::DataBlocked { .. } => "DATA_BLOCKED",
        F::StreamDataBlocked { .. } => "STREAM_DATA_BLOCKED",
        F::StreamsBlocked { .. } => "STREAMS_BLOCKED",
        F::NewConnectionId { .. } => "NEW_CONNECTION_ID",
        F::RetireConnectionId { .. } => "RETIRE_CONNECTION_ID",
        F::PathChallenge { .. } => "PATH_CHALLENGE",
        F::PathResponse { .. } => "PATH_RESPONSE",
        F::ConnectionClose { .. } => "CONNECTION_CLOSE",
        F::HandshakeDone { .. } => "HANDSHAKE_DONE",
        F::Datagram { .. } => "DATAGRAM",
        _ => "OTHER",
    }
}

fn short(mut s: String) -> String {
    if let Some(i) = s.find(" {") {
        s.truncate(i);
    }
    if let Some(i) = s.find('(') {
        s.truncate(i);
    }
    s
}

impl event::Subscriber for Sub {
    type ConnectionContext = ();

    fn create_connection_context(
        &mut self,
        _meta: &events::ConnectionMeta,
        _info: &events::ConnectionInfo,
    ) -> Self::ConnectionContext {
    }

    fn on_packet_sent(&mut self, _c: &mut (), _m: &events::ConnectionMeta, _e: &events::PacketSent) {
        self.sh.lock().unwrap().s.packets_sent += 1;
    }

    fn on_packet_lost(&mut self, _c: &mut (), _m: &events::ConnectionMeta, e: &events::PacketLost) {
        let mut sh = self.sh.lock().unwrap();
        sh.s.packets_lost += 1;
        sh.s.bytes_lost += e.bytes_lost as u64;
        if e.is_mtu_probe {
            sh.s.mtu_probes_lost += 1;
        }
    }

    fn on_packet_dropped(&mut self, _c: &mut (), m: &events::ConnectionMeta, e: &events::PacketDropped) {
        let reason = short(format!("{:?}", e.reason));
        let mut sh = self.sh.lock().unwrap();
        let t = m.timestamp.duration_since_start().as_nanos() as u64;
        sh.note(t, "s2n", || format!("packet_dropped {:?}", e.reason));
        *sh.s.packets_dropped.entry(reason).or_insert(0) += 1;
        // a 1-RTT packet that fails authentication although nothing on the path corrupts
        // datagrams: where does the packet number s2n-quic reconstructed lie relative to
        // what it had processed / acknowledged?
        if let events::PacketDropReason::DecryptionFailed {
            packet_header: events::PacketHeader::OneRtt { number, .. },
            ..
        } = &e.reason
        {
            let (rx, acked) = (sh.s.largest_rx_1rtt, sh.s.largest_ack_sent_1rtt);
            let d = &mut sh.s.decrypt_failed;
            d.total += 1;
            if *number > rx {
                d.decoded_ahead_of_rx += 1;
                d.max_ahead = d.max_ahead.max(*number - rx);
            }
            sh.note(t, "s2n", || {
                format!("  ^ decoded pn {number}; largest 1-RTT pn processed {rx}; largest acknowledged in a sent ACK {acked}")
            });
        }
    }

    fn on_packet_received(&mut self, _c: &mut (), _m: &events::ConnectionMeta, e: &events::PacketReceived) {
        if let events::PacketHeader::OneRtt { number, .. } = &e.packet_header {
            let mut sh = self.sh.lock().unwrap();
            sh.s.largest_rx_1rtt = sh.s.largest_rx_1rtt.max(*number);
        }
    }

    fn on_datagram_dropped(&mut self, _c: &mut (), _m: &events::ConnectionMeta, e: &events::DatagramDropped) {
        let reason = short(format!("{:?}", e.reason));
        *self.sh.lock().unwrap().s.datagrams_dropped.entry(reason).or_insert(0) += 1;
    }

    fn on_endpoint_datagram_dropped(&mut self, _m: &events::EndpointMeta, e: &events::EndpointDatagramDropped) {
        let reason = format!("endpoint:{}", short(format!("{:?}", e.reason)));
        *self.sh.lock().unwrap().s.datagrams_dropped.entry(reason).or_insert(0) += 1;
    }

    fn on_duplicate_packet(&mut self, _c: &mut (), _m: &events::ConnectionMeta, _e: &events::DuplicatePacket) {
        self.sh.lock().unwrap().s.duplicate_packets += 1;
    }

    fn on_frame_sent(&mut self, _c: &mut (), _m: &events::ConnectionMeta, e: &events::FrameSent) {
        let mut sh = self.sh.lock().unwrap();
        *sh.s.frames_sent.entry(frame_name(&e.frame)).or_insert(0) += 1;
        if let (events::PacketHeader::OneRtt { .. }, events::Frame::Ack { largest_acknowledged, .. }) =
            (&e.packet_header, &e.frame)
        {
            sh.s.largest_ack_sent_1rtt = sh.s.largest_ack_sent_1rtt.max(*largest_acknowledged);
        }
    }

    fn on_frame_received(&mut self, _c: &mut (), _m: &events::ConnectionMeta, e: &events::FrameReceived) {
        *self.sh.lock().unwrap().s.frames_recv.entry(frame_name(&e.frame)).or_insert(0) += 1;
    }

    fn on_handshake_status_updated(
        &mut self,
        _c: &mut (),
        m: &events::ConnectionMeta,
        e: &events::HandshakeStatusUpdated,
    ) {
        let status = match e.status {
            events::HandshakeStatus::Complete { .. } => "complete",
            events::HandshakeStatus::Confirmed { .. } => "confirmed",
            events::HandshakeStatus::HandshakeDoneAcked { .. } => "done_acked",
            events::HandshakeStatus::HandshakeDoneLost { .. } => "done_lost",
            _ => "other",
        };
        let t = m.timestamp.duration_since_start().as_nanos() as u64;
        let mut sh = self.sh.lock().unwrap();
        sh.note(t, "s2n", || format!("handshake {status}"));
        sh.s.handshake.push(status);
    }

    fn on_mtu_updated(&mut self, _c: &mut (), _m: &events::ConnectionMeta, e: &events::MtuUpdated) {
        self.sh.lock().unwrap().s.mtu = e.mtu;
    }

    fn on_transport_parameters_received(
        &mut self,
        _c: &mut (),
        _m: &events::ConnectionMeta,
        e: &events::TransportParametersReceived,
    ) {
        let p = &e.transport_parameters;
        let s = format!(
            "max_idle={:?} max_udp={} sd_bidi_local={} sd_bidi_remote={} sd_uni={} streams_bidi={} streams_uni={} ade={} mad={:?} cid_limit={}",
            p.max_idle_timeout,
            p.max_udp_payload_size,
            p.initial_max_stream_data_bidi_local,
            p.initial_max_stream_data_bidi_remote,
            p.initial_max_stream_data_uni,
            p.initial_max_streams_bidi,
            p.initial_max_streams_uni,
            p.ack_delay_exponent,
            p.max_ack_delay,
            p.active_connection_id_limit,
        );
        self.sh.lock().unwrap().s.peer_tp = Some(s);
    }

    fn on_connection_closed(&mut self, _c: &mut (), m: &events::ConnectionMeta, e: &events::ConnectionClosed) {
        let t = m.timestamp.duration_since_start().as_nanos() as u64;
        let c = classify(&e.error);
        let mut sh = self.sh.lock().unwrap();
        sh.note(t, "s2n", || format!("connection_closed {c:?}"));
        if sh.s.closed.is_none() {
            sh.s.closed = Some(c);
        }
    }
}

// ---------------------------------------------------------------------------
// endpoints

fn limits(c: &S2nCfg) -> Limits {
    let mut l = Limits::new();
    if c.data_window != DEFAULT_WINDOW {
        l = l.with_data_window(c.data_window).unwrap();
    }
    if c.bidi_local_window != DEFAULT_WINDOW {
        l = l.with_bidirectional_local_data_window(c.bidi_local_window).unwrap();
    }
    if c.bidi_remote_window != DEFAULT_WINDOW {
        l = l.with_bidirectional_remote_data_window(c.bidi_remote_window).unwrap();
    }
    if c.uni_window != DEFAULT_WINDOW {
        l = l.with_unidirectional_data_window(c.uni_window).unwrap();
    }
    l = l
        .with_max_open_local_bidirectional_streams(c.max_open_local_bidi)
        .unwrap()
        .with_max_open_remote_bidirectional_streams(c.max_open_remote_bidi)
        .unwrap()
        .with_max_open_local_unidirectional_streams(c.max_open_local_uni)
        .unwrap()
        .with_max_open_remote_unidirectional_streams(c.max_open_remote_uni)
        .unwrap()
        .with_max_ack_delay(Duration::from_millis(c.max_ack_delay_ms))
        .unwrap()
        // generous: the oracle has its own handshake bound and stall detector
        .with_max_handshake_duration(Duration::from_secs(90))
        .unwrap()
        .with_max_idle_timeout(Duration::from_secs(120))
        .unwrap()
        // path RTTs are <= 125 ms here; a smaller initial RTT keeps handshake PTO back-off short
        .with_initial_round_trip_time(Duration::from_millis(100))
        .unwrap();
    if c.max_send_buffer > 0 {
        l = l.with_max_send_buffer_size(c.max_send_buffer).unwrap();
    }
    l
}

fn io_for(handle: &IoHandle, c: &S2nCfg, sh: &Shared) -> s2n_quic::provider::io::testing::Io {
    let sh = sh.clone();
    handle
        .builder()
        .with_max_mtu(c.max_mtu)
        .with_initial_mtu(c.initial_mtu.min(c.max_mtu))
        .on_socket(move |socket| {
            sh.lock().unwrap().s2n_port = socket.local_addr().unwrap().port();
        })
        .build()
        .unwrap()
}

pub fn build_server(handle: &IoHandle, scn: &Scenario, sh: &Shared) -> Server {
    Server::builder()
        .with_io(io_for(handle, &scn.s2n, sh))
        .unwrap()
        .with_tls((certificates::CERT_PEM, certificates::KEY_PEM))
        .unwrap()
        .with_event(Sub { sh: sh.clone() })
        .unwrap()
        .with_random(Random(Rng::new(scn.s2n.rng_seed)))
        .unwrap()
        .with_limits(limits(&scn.s2n))
        .unwrap()
        .start()
        .unwrap()
}

pub fn build_client(handle: &IoHandle, scn: &Scenario, sh: &Shared) -> Client {
    Client::builder()
        .with_io(io_for(handle, &scn.s2n, sh))
        .unwrap()
        .with_tls(certificates::CERT_PEM)
        .unwrap()
        .with_event(Sub { sh: sh.clone() })
        .unwrap()
        .with_random(Random(Rng::new(scn.s2n.rng_seed)))
        .unwrap()
        .with_limits(limits(&scn.s2n))
        .unwrap()
        .start()
        .unwrap()
}

// ---------------------------------------------------------------------------
// application

fn app_error(sh: &Shared, what: &str, id: u64, e: &s2n_quic::stream::Error) {
    use s2n_quic::stream::Error as E;
    let t = now_ns();
    let mut sh = sh.lock().unwrap();
    let (class, detail) = match e {
        E::ConnectionError { error, .. } => {
            let (c, d) = classify(error);
            (format!("conn:{c}"), d)
        }
        E::StreamReset { error, .. } => {
            let c: u64 = (*error).into();
            (format!("stream_reset:{c}"), String::new())
        }
        other => (short(format!("{other:?}")), format!("{other}")),
    };
    *sh.s.app_errors.entry(format!("{what}:{class}")).or_insert(0) += 1;
    // a connection-level error is judged once, through the connection_closed event; a
    // stream-level error (reset, stop_sending ...) is never expected: the peer application
    // does not use them
    if !class.starts_with("conn:") && !sh.ending {
        sh.problem(
            t,
            format!("s2n_{what}_error:{class}"),
            format!("s2n-quic application: {what} on stream {id} failed: {class} {detail}"),
        );
    } else {
        sh.note(t, "s2n", || format!("{what} on stream {id}: {class} {detail}"));
    }
}

async fn sender(sh: Shared, scn: Arc<Scenario>, plan: StreamPlan, mut s: SendStream) {
    let id = plan.id;
    let (key, len) = {
        let g = sh.lock().unwrap();
        let f = &g.flows[&(id, Side::S2n)];
        (f.key, f.len)
    };
    let mut rng = Rng::new(vq_util::mix(scn.sub, id ^ 0x5e4d));
    let mut off = 0u64;
    while off < len {
        let n = rng.range(plan.chunk_lo as u64, plan.chunk_hi as u64).min(len - off) as usize;
        let data = Bytes::from(vq_util::prf_vec(key, off, n));
        if let Err(e) = s.send(data).await {
            app_error(&sh, "send", id, &e);
            return;
        }
        off += n as u64;
        sh.lock().unwrap().flows.get_mut(&(id, Side::S2n)).unwrap().sent = off;
    }
    if let Err(e) = s.finish() {
        app_error(&sh, "finish", id, &e);
        return;
    }
    sh.lock().unwrap().flows.get_mut(&(id, Side::S2n)).unwrap().send_finished = true;
    // resolves once the peer acknowledged everything including the FIN
    match s.close().await {
        Ok(()) => sh.lock().unwrap().s.close_ok += 1,
        Err(e) => app_error(&sh, "close", id, &e),
    }
}

async fn receiver(sh: Shared, plan: StreamPlan, mut r: ReceiveStream) {
    let id = plan.id;
    let mut off = 0u64;
    loop {
        match r.receive().await {
            Ok(Some(chunk)) => {
                let ok = sh.lock().unwrap().received(now_ns(), id, Side::Quiche, off, &chunk);
                if !ok {
                    return;
                }
                off += chunk.len() as u64;
            }
            Ok(None) => {
                sh.lock().unwrap().fin(now_ns(), id, Side::Quiche);
                return;
            }
            Err(e) => {
                app_error(&sh, "receive", id, &e);
                return;
            }
        }
        if plan.s2n_read_pause_us > 0 {
            delay(Duration::from_micros(plan.s2n_read_pause_us)).await;
        }
    }
}

/// open the streams s2n-quic initiates, one after the other (the ids are then determined)
async fn opener(sh: Shared, scn: Arc<Scenario>, mut h: Handle) {
    for plan in scn.streams.iter().filter(|p| p.opener == Side::S2n) {
        if plan.bidi {
            match h.open_bidirectional_stream().await {
                Ok(s) => {
                    let id: u64 = s.id();
                    if id != plan.id {
                        sh.lock().unwrap().harness_problem(now_ns(), "harness_stream_id", format!("expected id {} got {id}", plan.id));
                        return;
                    }
                    sh.lock().unwrap().s.streams_opened += 1;
                    let (r, s) = s.split();
                    spawn(sender(sh.clone(), scn.clone(), plan.clone(), s));
                    spawn(receiver(sh.clone(), plan.clone(), r));
                }
                Err(e) => {
                    open_error(&sh, plan.id, &e);
                    return;
                }
            }
        } else {
            match h.open_send_stream().await {
                Ok(s) => {
                    let id: u64 = s.id();
                    if id != plan.id {
                        sh.lock().unwrap().harness_problem(now_ns(), "harness_stream_id", format!("expected id {} got {id}", plan.id));
                        return;
                    }
                    sh.lock().unwrap().s.streams_opened += 1;
                    spawn(sender(sh.clone(), scn.clone(), plan.clone(), s));
                }
                Err(e) => {
                    open_error(&sh, plan.id, &e);
                    return;
                }
            }
        }
    }
}

fn open_error(sh: &Shared, id: u64, e: &s2n_quic::connection::Error) {
    let (c, d) = classify(e);
    let mut sh = sh.lock().unwrap();
    *sh.s.app_errors.entry(format!("open:{c}")).or_insert(0) += 1;
    sh.note(now_ns(), "s2n", || format!("open stream {id}: {c} {d}"));
}

async fn acceptor(sh: Shared, scn: Arc<Scenario>, mut a: StreamAcceptor) {
    loop {
        match a.accept().await {
            Ok(Some(stream)) => {
                let id: u64 = stream.id();
                let plan = scn.plan(id).filter(|p| p.opener == Side::Quiche).cloned();
                let Some(plan) = plan else {
                    sh.lock().unwrap().problem(
                        now_ns(),
                        "s2n_rx_unplanned_stream",
                        format!("s2n-quic accepted stream {id} which quiche's application never opened"),
                    );
                    continue;
                };
                sh.lock().unwrap().s.streams_accepted += 1;
                match stream {
                    PeerStream::Bidirectional(s) => {
                        if !plan.bidi {
                            sh.lock().unwrap().problem(now_ns(), "s2n_stream_type", format!("stream {id} accepted as bidirectional"));
                            continue;
                        }
                        let (r, s) = s.split();
                        spawn(sender(sh.clone(), scn.clone(), plan.clone(), s));
                        spawn(receiver(sh.clone(), plan, r));
                    }
                    PeerStream::Receive(r) => {
                        if plan.bidi {
                            sh.lock().unwrap().problem(now_ns(), "s2n_stream_type", format!("stream {id} accepted as unidirectional"));
                            continue;
                        }
                        spawn(receiver(sh.clone(), plan, r));
                    }
                }
            }
            Ok(None) => return,
            Err(e) => {
                let (c, d) = classify(&e);
                let mut g = sh.lock().unwrap();
                *g.s.app_errors.entry(format!("accept:{c}")).or_insert(0) += 1;
                g.note(now_ns(), "s2n", || format!("accept: {c} {d}"));
                return;
            }
        }
    }
}

fn run_connection(sh: Shared, scn: Arc<Scenario>, conn: s2n_quic::Connection) {
    sh.lock().unwrap().s.connected_at = Some(now_ns());
    let (h, a) = conn.split();
    spawn(acceptor(sh.clone(), scn.clone(), a));
    spawn(opener(sh.clone(), scn.clone(), h.clone()));
    // the closer: waits for the controller's signal, then closes with the scenario's code
    let code = scn.close_code;
    let closes = scn.closer == Side::S2n;
    spawn(async move {
        loop {
            delay(Duration::from_millis(1)).await;
            let (now, ending) = {
                let g = sh.lock().unwrap();
                (g.close_now, g.ending)
            };
            if ending {
                break;
            }
            if now && closes {
                let mut g = sh.lock().unwrap();
                g.s.close_called = true;
                g.note(now_ns(), "s2n", || format!("application closes the connection with code {code}"));
                drop(g);
                h.close(s2n_quic::application::Error::new(code).unwrap());
                break;
            }
        }
        // keep the handle (and with it the connection) until the simulation ends
        loop {
            delay(Duration::from_secs(1)).await;
            if sh.lock().unwrap().ending {
                break;
            }
        }
        drop(h);
    });
}

pub fn start_server(handle: &IoHandle, scn: Arc<Scenario>, sh: Shared) -> SocketAddr {
    let mut server = build_server(handle, &scn, &sh);
    let addr = server.local_addr().unwrap();
    spawn(async move {
        let mut n = 0;
        while let Some(conn) = server.accept().await {
            n += 1;
            if n > 1 {
                sh.lock().unwrap().problem(now_ns(), "s2n_second_connection", "the s2n-quic server accepted a second connection from one client".to_string());
                continue;
            }
            run_connection(sh.clone(), scn.clone(), conn);
        }
    });
    addr
}

pub fn start_client(handle: &IoHandle, scn: Arc<Scenario>, sh: Shared, server: SocketAddr) {
    debug_assert_eq!(scn.role, Role::S2nClient);
    let client = build_client(handle, &scn, &sh);
    spawn(async move {
        let connect = Connect::new(server).with_server_name("localhost");
        match client.connect(connect).await {
            Ok(conn) => run_connection(sh.clone(), scn.clone(), conn),
            Err(e) => {
                let (c, d) = classify(&e);
                let mut g = sh.lock().unwrap();
                *g.s.app_errors.entry(format!("connect:{c}")).or_insert(0) += 1;
                g.note(now_ns(), "s2n", || format!("connect failed: {c} {d}"));
                if g.s.closed.is_none() {
                    g.s.closed = Some((c, d));
                }
            }
        }
        // keep the client endpoint alive until the simulation ends
        loop {
            delay(Duration::from_secs(1)).await;
            if sh.lock().unwrap().ending {
                break;
            }
        }
        drop(client);
    });
}
