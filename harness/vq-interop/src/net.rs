//! The network between the two implementations: seeded loss / duplication / reordering
//! jitter / path MTU, and the datagram log that goes into a witness.

use crate::{scen::NetCfg, state::Shared};
use s2n_quic::provider::io::testing::{
    self as io,
    network::{Buffers, Network, Packet},
};
use std::time::Duration;
use vq_util::Rng;

pub fn now_ns() -> u64 {
    unsafe { io::now().as_duration() }.as_nanos() as u64
}

pub struct Net {
    pub sh: Shared,
    pub cfg: NetCfg,
    pub rng: Rng,
    pub idx: u64,
    /// consecutive random drops per direction: the path is *fair-lossy* (at most
    /// `MAX_CONSECUTIVE_DROPS` in a row), so that PTO back-off is bounded and "no progress for
    /// 30 s" can only mean a deadlock between the implementations, not bad luck
    pub consecutive: [u32; 2],
    /// quiche's advertised max_udp_payload_size
    pub peer_limit: usize,
}

pub const MAX_CONSECUTIVE_DROPS: u32 = 3;

impl Net {
    pub fn new(sh: Shared, cfg: NetCfg, peer_limit: usize) -> Self {
        let rng = Rng::new(cfg.seed);
        Net {
            sh,
            cfg,
            rng,
            idx: 0,
            consecutive: [0; 2],
            peer_limit,
        }
    }
}

/// a one-line description of a datagram from its first QUIC packet header (RFC 9000 17.2 /
/// 17.3, invariant fields only - nothing is decrypted)
fn describe(b: &[u8]) -> String {
    if b.is_empty() {
        return "empty".into();
    }
    if b[0] & 0x80 != 0 {
        if b.len() < 7 {
            return "long?".into();
        }
        let ver = u32::from_be_bytes([b[1], b[2], b[3], b[4]]);
        let ty = match (ver, (b[0] >> 4) & 3) {
            (0, _) => "VN",
            (_, 0) => "Initial",
            (_, 1) => "0RTT",
            (_, 2) => "Handshake",
            _ => "Retry",
        };
        let dl = b[5] as usize;
        let dcid = b.get(6..6 + dl).unwrap_or(&[]);
        format!("{ty} v={ver:#x} dcid={}", hex(dcid, 20))
    } else {
        format!("1RTT {}", hex(&b[1..b.len().min(9)], 8))
    }
}

pub fn hex(b: &[u8], max: usize) -> String {
    let mut s = String::new();
    for x in b.iter().take(max) {
        s.push_str(&format!("{x:02x}"));
    }
    s
}

impl Network for Net {
    fn execute(&mut self, buffers: &Buffers) -> usize {
        let mut pkts = Vec::new();
        buffers.drain_pending_transmissions(|packet| {
            pkts.push(packet);
            Ok(())
        });
        let n = pkts.len();
        if n == 0 {
            return 0;
        }
        let now = now_ns();
        for packet in pkts {
            self.handle(buffers, packet, now);
        }
        n
    }
}

impl Net {
    fn handle(&mut self, buffers: &Buffers, packet: Packet, now: u64) {
        let src_port = packet.path.local_address.port();
        let s2n_port = self.sh.lock().unwrap().s2n_port;
        // direction 0: towards s2n-quic, 1: towards quiche
        let dir = if src_port == s2n_port { 1 } else { 0 };
        let idx = self.idx;
        self.idx += 1;
        let len = packet.payload.len();
        let r = &mut self.rng;
        // draw every random number unconditionally: the draws of datagram k depend only on
        // (seed, k)
        let u_loss = r.f64();
        let u_dup = r.f64();
        let jitter = if self.cfg.jitter_us > 0 {
            r.range(0, self.cfg.jitter_us)
        } else {
            0
        };
        let dup_extra = r.range(0, self.cfg.delay_us.max(1) * 2);
        let fate: String;
        let mut deliveries: Vec<u64> = Vec::new();
        if len > self.cfg.path_payload {
            fate = "drop:mtu".into();
        } else if dir == 1 && len > self.peer_limit {
            // quiche told s2n-quic (max_udp_payload_size) that it does not take anything larger
            fate = "drop:peer_limit".into();
        } else if u_loss < self.cfg.loss[dir] && self.consecutive[dir] < MAX_CONSECUTIVE_DROPS {
            self.consecutive[dir] += 1;
            fate = "drop:loss".into();
        } else {
            self.consecutive[dir] = 0;
            let at = self.cfg.delay_us + jitter;
            deliveries.push(at);
            if u_dup < self.cfg.dup {
                deliveries.push(at + dup_extra);
                fate = format!("deliver+{at}us,dup+{}us", at + dup_extra);
            } else {
                fate = format!("deliver+{at}us");
            }
        }
        {
            let mut sh = self.sh.lock().unwrap();
            let c = &mut sh.net;
            c.datagrams[dir] += 1;
            c.bytes[dir] += len as u64;
            if deliveries.is_empty() {
                c.dropped[dir] += 1;
                if fate == "drop:mtu" {
                    c.dropped_mtu[dir] += 1;
                }
                if fate == "drop:peer_limit" {
                    c.dropped_peer_limit += 1;
                }
            }
            if deliveries.len() > 1 {
                c.duplicated[dir] += 1;
            }
            c.max_len[dir] = c.max_len[dir].max(len);
            let line = format!(
                "#{idx} t={:.3}ms {} len={len} {} -> {fate}",
                now as f64 / 1e6,
                if dir == 0 { "quiche->s2n" } else { "s2n->quiche" },
                describe(&packet.payload),
            );
            sh.log_datagram(line);
        }
        for at in deliveries {
            let mut p = packet.clone();
            // reverse the addresses so that dst/src are right for the receiver
            p.switch();
            let buffers = buffers.clone();
            io::spawn(async move {
                io::time::delay(Duration::from_micros(at)).await;
                buffers.rx(*p.path.local_address, |queue| {
                    queue.enqueue(p);
                });
            });
        }
    }
}
