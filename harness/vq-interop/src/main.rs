//! vq-interop — decides C07 "Interoperates with an independent RFC 9000/9001 implementation".
//!
//! An s2n-quic endpoint (server against a quiche client, client against a quiche server)
//! inside the s2n-quic testing IO simulator, under seeded loss / duplication / reordering and
//! a seeded draw of flow-control windows, stream limits and datagram sizes on both sides.
//! Both views must agree: handshake complete, every stream byte equal to the position-keyed
//! PRF stream the other application wrote, clean end of stream, and the only close is the
//! planned application close. See README.md.
//!
//! `vq-interop --seed S --start I --count N [--clock virtual|paced] [--replay f] [--verbose]`

mod clock;
mod net;
mod qd;
mod run;
mod s2n;
mod scen;
mod state;

use run::{ClockMode, End, Outcome, Verdict};
use scen::{Scenario, Side};
use std::sync::Arc;
use vq_util::{arg_str, arg_u64, hash_str, json, Summary, Violation};

fn account(sum: &mut Summary, scn: &Scenario, o: &Outcome) {
    let g = match o.state.lock() {
        Ok(g) => g,
        Err(p) => p.into_inner(),
    };
    let role = scn.role.name();
    sum.count(&format!("scenarios_{role}"), 1);
    let hs = g.q.established_at.is_some() && g.s.connected_at.is_some();
    if hs {
        sum.count("handshakes_completed", 1);
        sum.count(&format!("handshakes_completed_{role}"), 1);
        let t = g.q.established_at.unwrap().max(g.s.connected_at.unwrap());
        sum.max("handshake_ms_max", (t / 1_000_000) as i64);
    }
    let to_quiche = g.verified_bytes(Side::S2n);
    let to_s2n = g.verified_bytes(Side::Quiche);
    sum.count("bytes_verified_s2n_to_quiche", to_quiche);
    sum.count("bytes_verified_quiche_to_s2n", to_s2n);
    sum.count(&format!("bytes_verified_{role}"), to_quiche + to_s2n);
    sum.count("flows_finished_clean", g.finished_flows());
    sum.count("flows_planned", g.flows.len() as u64);
    sum.count("streams_planned", scn.streams.len() as u64);
    sum.count("streams_bidi", scn.streams.iter().filter(|s| s.bidi).count() as u64);
    sum.count("streams_opened_by_s2n", g.s.streams_opened);
    sum.count("streams_accepted_by_s2n", g.s.streams_accepted);
    sum.count("s2n_send_close_acked", g.s.close_ok);
    sum.count("s2n_packets_sent", g.s.packets_sent);
    sum.count("s2n_packets_lost", g.s.packets_lost);
    sum.count("s2n_mtu_probes_lost", g.s.mtu_probes_lost);
    sum.count("s2n_duplicate_packets_seen", g.s.duplicate_packets);
    sum.count("quiche_packets_sent", g.q.sent);
    sum.count("quiche_packets_lost", g.q.lost);
    sum.count("quiche_retransmissions", g.q.retrans);
    sum.count("quiche_stream_retrans_bytes", g.q.stream_retrans_bytes);
    sum.count("net_datagrams", g.net.datagrams[0] + g.net.datagrams[1]);
    sum.count("net_dropped_loss", g.net.dropped[0] + g.net.dropped[1] - g.net.dropped_mtu[0] - g.net.dropped_mtu[1] - g.net.dropped_peer_limit);
    sum.count("net_dropped_mtu", g.net.dropped_mtu[0] + g.net.dropped_mtu[1]);
    sum.count("s2n_datagrams_over_peer_udp_limit", g.net.dropped_peer_limit);
    sum.count("net_duplicated", g.net.duplicated[0] + g.net.duplicated[1]);
    sum.max("net_max_datagram_to_quiche", g.net.max_len[1] as i64);
    sum.max("net_max_datagram_to_s2n", g.net.max_len[0] as i64);
    // flow-control / stream-limit blocking, as seen on the wire by s2n-quic and in quiche's stats
    let fs = |k: &str| *g.s.frames_sent.get(k).unwrap_or(&0);
    let fr = |k: &str| *g.s.frames_recv.get(k).unwrap_or(&0);
    let s2n_blocked = fs("DATA_BLOCKED") + fs("STREAM_DATA_BLOCKED") + fs("STREAMS_BLOCKED");
    let q_blocked = fr("DATA_BLOCKED") + fr("STREAM_DATA_BLOCKED") + fr("STREAMS_BLOCKED");
    sum.count("blocked_frames_sent_by_s2n", s2n_blocked);
    sum.count("blocked_frames_sent_by_quiche", q_blocked);
    sum.count("quiche_send_blocked_episodes", g.q.send_blocked_episodes);
    sum.count("quiche_stream_limit_waits", (g.q.stream_limit_waits > 0) as u64);
    for k in ["MAX_DATA", "MAX_STREAM_DATA", "MAX_STREAMS"] {
        sum.count(&format!("s2n_sent_{k}"), fs(k));
        sum.count(&format!("s2n_received_{k}"), fr(k));
    }
    for (k, v) in &g.s.packets_dropped {
        sum.count(&format!("s2n_packet_dropped_{k}"), *v);
    }
    for (k, v) in &g.q.recv_errors {
        sum.count(&format!("quiche_recv_error_{k}"), *v);
    }
    // 1-RTT authentication failures on a path that never corrupts: either a datagram larger
    // than the receive buffer was truncated (oversize class), or a packet reordered by more
    // than half the 1-byte packet-number window was reconstructed 256 too high (RFC 9000 A.3;
    // inherent, both sides conform) - anything else would be s2n-quic misreading a packet
    let df = &g.s.decrypt_failed;
    if df.total > 0 {
        let truncation = g.net.max_len[0] > scn.s2n.max_mtu as usize;
        sum.count("s2n_decrypt_failed_pn_window_alias", df.decoded_ahead_of_rx);
        if truncation {
            sum.count("s2n_decrypt_failed_truncated_oversize", df.total - df.decoded_ahead_of_rx);
        } else {
            sum.count("s2n_decrypt_failed_unexplained", df.total - df.decoded_ahead_of_rx);
            if df.total > df.decoded_ahead_of_rx {
                sum.set("s2n_decrypt_failed_unexplained_in", format!("seed {} index {}", scn.seed, scn.index));
            }
        }
        sum.max("s2n_decrypt_failed_alias_ahead_max", df.max_ahead as i64);
    }
    if let Some((c, _)) = &g.s.closed {
        sum.set("s2n_connection_closed", c.split(':').take(2).collect::<Vec<_>>().join(":"));
    }
    if let End::Completed { close_seen_by_peer } = &o.end {
        sum.count("completed", 1);
        sum.count(if *close_seen_by_peer { "close_seen_by_peer" } else { "close_not_seen_by_peer" }, 1);
        sum.count(&format!("closed_by_{}", scn.closer.name()), 1);
    }
    sum.set("window_bucket", scn.window_bucket());
    sum.set("loss_class", scn.loss_class());
    sum.set("quiche_cc", scn.q.cc);
    sum.max("virtual_ms_max", (o.virtual_ns / 1_000_000) as i64);
    sum.count("virtual_ms_total", o.virtual_ns / 1_000_000);
    sum.count("wall_ms_total", o.wall_ms);
    sum.max("wall_ms_max", o.wall_ms as i64);
    if g.s.mtu > 0 {
        sum.max("s2n_mtu_max", g.s.mtu as i64);
    }
    if g.q.max_send_udp > 0 {
        sum.max("quiche_send_udp_max", g.q.max_send_udp as i64);
    }

    // scenario class x what actually happened
    let retrans = g.s.packets_lost > 0 || g.q.retrans > 0 || g.q.lost > 0;
    let blocked = s2n_blocked + q_blocked > 0 || g.q.send_blocked_episodes > 0;
    let stream_wait = g.q.stream_limit_waits > 0 || fs("STREAMS_BLOCKED") + fr("MAX_STREAMS") > 0;
    let class = format!(
        "{}{}{}{}",
        scn.class(),
        if retrans { "/retx" } else { "" },
        if blocked { "/blocked" } else { "" },
        if stream_wait { "/streamlimit" } else { "" },
    );
    if to_quiche + to_s2n == 0 || !hs {
        sum.trivial += 1;
    } else {
        sum.signatures.insert(hash_str(&class));
        sum.set("classes", class.clone());
    }
    sum.sample(json!({
        "index": scn.index, "class": class, "end": format!("{:?}", o.end),
        "virtual_ms": o.virtual_ns / 1_000_000, "wall_ms": o.wall_ms,
        "bytes_s2n_to_quiche": to_quiche, "bytes_quiche_to_s2n": to_s2n,
        "s2n_packets_lost": g.s.packets_lost, "quiche_retrans": g.q.retrans,
        "min_window": if scn.min_window() == u64::MAX { json!("n/a") } else { json!(scn.min_window()) },
        "net": {"delay_us": scn.net.delay_us, "jitter_us": scn.net.jitter_us, "loss": scn.net.loss, "dup": scn.net.dup},
    }));
}

fn describe(scn: &Scenario, o: &Outcome) -> String {
    let g = match o.state.lock() {
        Ok(g) => g,
        Err(p) => p.into_inner(),
    };
    format!(
        "#{} {} end={:?} virt={}ms wall={}ms s2n->q {}B q->s2n {}B flows {}/{} s2n_lost={} q_retx={} verdict={}",
        scn.index,
        scn.class(),
        o.end,
        o.virtual_ns / 1_000_000,
        o.wall_ms,
        g.verified_bytes(Side::S2n),
        g.verified_bytes(Side::Quiche),
        g.finished_flows(),
        g.flows.len(),
        g.s.packets_lost,
        g.q.retrans,
        match &o.verdict {
            Verdict::Ok => "ok".to_string(),
            Verdict::Violation { signature, .. } => format!("VIOLATION {signature}"),
            Verdict::Inconclusive(s) => format!("inconclusive ({})", s.chars().take(80).collect::<String>()),
        }
    )
}

fn main() {
    let args = vq_util::parse_args();
    let mut seed = arg_u64(&args, "seed", 1);
    let mut start = arg_u64(&args, "start", 0);
    let mut count = arg_u64(&args, "count", 8);
    let mut verbose = args.contains_key("verbose");
    let mut mode = match arg_str(&args, "clock", "virtual") {
        "paced" => ClockMode::Paced,
        _ => ClockMode::Virtual,
    };
    let replay = args.get("replay").cloned();
    scen::OVERSIZE_PER_1024.store(arg_u64(&args, "oversize-per-1024", 64), std::sync::atomic::Ordering::Relaxed);
    let mut sum = Summary::default();

    if let Some(path) = &replay {
        match std::fs::read_to_string(path).ok().and_then(|s| serde_json_from(&s)) {
            Some(v) => {
                // accept either the bare replay object or a violation record containing it
                let r = v.get("replay").unwrap_or(&v);
                seed = r["seed"].as_u64().unwrap_or(seed);
                start = r["index"].as_u64().unwrap_or(start);
                if r["clock"].as_str() == Some("paced") {
                    mode = ClockMode::Paced;
                }
                count = 1;
                verbose = true;
            }
            None => {
                eprintln!("vq-interop: cannot read replay file {path}");
                std::process::exit(2);
            }
        }
    }

    if mode == ClockMode::Virtual && !clock::self_test() {
        eprintln!("vq-interop: clock_gettime interposition is not effective in this build; falling back to --clock paced");
        sum.count("clock_interposition_failed", 1);
        mode = ClockMode::Paced;
    }
    sum.set("clock_mode", if mode == ClockMode::Virtual { "virtual" } else { "paced" });

    // silence the default panic printer for library panics we catch (keep the message)
    let default_hook = std::panic::take_hook();
    std::panic::set_hook(Box::new(move |info| {
        eprintln!("vq-interop: panic caught: {info}");
        let _ = &default_hook;
    }));

    for index in start..start + count {
        let scn = Arc::new(Scenario::generate(seed, index));
        if verbose {
            eprintln!("scenario {}", scn.to_json());
        }
        let mut o = run::run(scn.clone(), mode, verbose);
        // one retry for anything the harness could not decide; in paced mode also for the
        // bounds that depend on the machine keeping up with real time
        let machine_dependent = mode == ClockMode::Paced
            && matches!(o.end, End::HandshakeTimeout | End::Stall | End::Budget | End::Wall);
        let mut first_sig = None;
        if matches!(o.verdict, Verdict::Inconclusive(_)) || machine_dependent {
            if let Verdict::Violation { signature, .. } = &o.verdict {
                first_sig = Some(signature.clone());
            }
            eprintln!("vq-interop: retrying {}", describe(&scn, &o));
            sum.count("retried", 1);
            o = run::run(scn.clone(), mode, verbose);
            if machine_dependent {
                // a timing bound counts only if it reproduces and the pacer kept up both times
                let same = matches!((&o.verdict, &first_sig), (Verdict::Violation { signature, .. }, Some(f)) if signature == f);
                // "kept up" = real time ran ahead of virtual time by less than a quarter of the run
                let disturbed = o.pacer_lag_ms * 4 > o.virtual_ns / 1_000_000;
                if matches!(o.verdict, Verdict::Violation { .. }) && (!same || disturbed) {
                    o.verdict = Verdict::Inconclusive(format!(
                        "paced run hit a timing bound ({:?}) that did not reproduce cleanly (pacer lag {} ms)",
                        o.end, o.pacer_lag_ms
                    ));
                }
            }
        }
        sum.evaluations += 1;
        if mode == ClockMode::Paced {
            sum.count("pacer_lag_ms_total", o.pacer_lag_ms);
            sum.count("pacer_rebases", o.pacer_rebases);
        }
        eprintln!("{}", describe(&scn, &o));
        account(&mut sum, &scn, &o);
        match &o.verdict {
            Verdict::Ok => {}
            Verdict::Violation { signature, what } => {
                sum.violation(Violation {
                    property: "C07".into(),
                    signature: signature.clone(),
                    what: format!("{what} [scenario {}]", scn.class()),
                    replay: run::witness(&scn, &o, mode),
                });
            }
            Verdict::Inconclusive(why) => {
                sum.inconclusive.push(format!("seed {seed} index {index}: {why}"));
            }
        }
    }
    if sum.evaluations > 0 && sum.counters.get("handshakes_completed").copied().unwrap_or(0) == 0 && sum.violations.is_empty() {
        sum.inconclusive.push("no handshake completed in this shard".into());
    }
    sum.print();
}

fn serde_json_from(s: &str) -> Option<vq_util::Value> {
    // vq_util re-exports serde_json's Value; parse through its FromStr
    s.parse::<vq_util::Value>().ok()
}
