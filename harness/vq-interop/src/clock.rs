//! Keeping quiche's clock and the simulator's clock aligned.
//!
//! quiche reads `std::time::Instant::now()` internally (loss detection, PTO, idle timer,
//! flow-control autotuning); s2n-quic inside the testing IO provider runs on bach's virtual
//! clock. Two ways of making the two agree are implemented:
//!
//! * **virtual** (default): this binary defines the C symbol `clock_gettime`. The static
//!   link resolves std's (and BoringSSL's / s2n-tls') references to it, so on the simulation
//!   thread `CLOCK_MONOTONIC` reads `BASE + virtual time` while a scenario runs. Everything
//!   else (other clocks, other threads, outside a scenario) falls through to the kernel
//!   through a raw syscall. Nothing has to sleep, the run is immune to machine load and
//!   as reproducible as the two TLS stacks' random numbers permit. A start-up self test
//!   checks that the interposition really took effect; if not, the binary falls back to
//!   paced mode and says so in the summary.
//! * **paced** (`--clock paced`): a pacer task sleeps the real thread so that virtual time
//!   never runs ahead of real time (1 ms ticks). Real time can run ahead of virtual time when
//!   the machine is overloaded; the pacer then re-bases instead of letting virtual time
//!   catch up in a burst, and reports the accumulated lag so that a badly disturbed run is
//!   classified inconclusive and retried.

use std::cell::Cell;

thread_local! {
    /// 0 = pass through; otherwise the value CLOCK_MONOTONIC reads on this thread (ns)
    static VIRT_NS: Cell<u64> = const { Cell::new(0) };
}

/// far away from 0 so that `Instant - Duration` inside quiche never underflows
const BASE_NS: u64 = 1_000_000 * 1_000_000_000;

#[no_mangle]
pub unsafe extern "C" fn clock_gettime(clk: libc::clockid_t, ts: *mut libc::timespec) -> libc::c_int {
    if clk == libc::CLOCK_MONOTONIC && !ts.is_null() {
        let v = VIRT_NS.with(|c| c.get());
        if v != 0 {
            (*ts).tv_sec = (v / 1_000_000_000) as libc::time_t;
            (*ts).tv_nsec = (v % 1_000_000_000) as _;
            return 0;
        }
    }
    libc::syscall(libc::SYS_clock_gettime, clk as libc::c_long, ts) as libc::c_int
}

/// real monotonic nanoseconds, never virtualised
pub fn real_ns() -> u64 {
    let mut ts = libc::timespec {
        tv_sec: 0,
        tv_nsec: 0,
    };
    unsafe {
        libc::syscall(
            libc::SYS_clock_gettime,
            libc::CLOCK_MONOTONIC as libc::c_long,
            &mut ts as *mut libc::timespec,
        );
    }
    ts.tv_sec as u64 * 1_000_000_000 + ts.tv_nsec as u64
}

/// per-process epoch: successive scenarios never see the monotonic clock go backwards
static EPOCH_NS: std::sync::atomic::AtomicU64 = std::sync::atomic::AtomicU64::new(BASE_NS);

pub struct VirtualClock {
    epoch: u64,
    last: Cell<u64>,
}

impl VirtualClock {
    pub fn start() -> Self {
        let epoch = EPOCH_NS.load(std::sync::atomic::Ordering::Relaxed);
        let c = VirtualClock {
            epoch,
            last: Cell::new(0),
        };
        c.set(0);
        c
    }
    /// publish the simulator's time (ns since simulation start) as this thread's monotonic clock
    pub fn set(&self, sim_ns: u64) {
        let v = sim_ns.max(self.last.get());
        self.last.set(v);
        VIRT_NS.with(|c| c.set(self.epoch + v));
    }
}

impl Drop for VirtualClock {
    fn drop(&mut self) {
        VIRT_NS.with(|c| c.set(0));
        EPOCH_NS.store(
            self.epoch + self.last.get() + 10_000_000_000,
            std::sync::atomic::Ordering::Relaxed,
        );
    }
}

/// does `std::time::Instant::now()` really go through our `clock_gettime`?
pub fn self_test() -> bool {
    VIRT_NS.with(|c| c.set(BASE_NS + 5_000_000_000));
    let a = std::time::Instant::now();
    VIRT_NS.with(|c| c.set(BASE_NS + 7_500_000_000));
    let b = std::time::Instant::now();
    VIRT_NS.with(|c| c.set(0));
    let r0 = std::time::Instant::now();
    std::thread::sleep(std::time::Duration::from_millis(2));
    let r1 = std::time::Instant::now();
    let real = r1.checked_duration_since(r0);
    b.checked_duration_since(a) == Some(std::time::Duration::from_millis(2500))
        && matches!(real, Some(d) if d >= std::time::Duration::from_millis(1) && d < std::time::Duration::from_secs(5))
}

/// Pacer for `--clock paced`
pub struct Pacer {
    real0: u64,
    pub lag_ns_total: u64,
    pub lag_ns_max: u64,
    pub rebases: u64,
}

impl Pacer {
    pub fn new() -> Self {
        Pacer {
            real0: real_ns(),
            lag_ns_total: 0,
            lag_ns_max: 0,
            rebases: 0,
        }
    }
    /// called once per virtual millisecond with the simulator's time
    pub fn tick(&mut self, sim_ns: u64) {
        let target = self.real0 + sim_ns;
        let now = real_ns();
        if now < target {
            std::thread::sleep(std::time::Duration::from_nanos(target - now));
        } else {
            let lag = now - target;
            // tolerate scheduling noise; beyond that re-base so that virtual time does not
            // sprint to catch up (quiche would see a burst of "instant" round trips)
            if lag > 2_000_000 {
                self.real0 += lag;
                self.lag_ns_total += lag;
                self.lag_ns_max = self.lag_ns_max.max(lag);
                self.rebases += 1;
            }
        }
    }
}
