//! What both endpoints' observers write and the oracle reads.

use crate::scen::{Scenario, Side};
use std::{
    collections::{BTreeMap, VecDeque},
    sync::{Arc, Mutex},
};

pub type Shared = Arc<Mutex<State>>;

#[derive(Clone, Debug, Default)]
pub struct Flow {
    pub len: u64,
    pub key: u64,
    /// bytes the sending application handed to its stack
    pub sent: u64,
    pub send_finished: bool,
    /// bytes the receiving application got and compared against the PRF stream
    pub verified: u64,
    pub fin_seen: bool,
}

/// A refuting (or harness-level) observation
#[derive(Clone, Debug)]
pub struct Problem {
    /// stable, machine readable
    pub kind: String,
    pub what: String,
    pub t_ns: u64,
    /// true: the harness' own assumption failed -> inconclusive, not a violation
    pub harness: bool,
}

#[derive(Clone, Debug, Default)]
pub struct NetCounters {
    pub datagrams: [u64; 2],
    pub bytes: [u64; 2],
    pub dropped: [u64; 2],
    pub dropped_mtu: [u64; 2],
    /// datagrams from s2n-quic larger than quiche's advertised max_udp_payload_size
    pub dropped_peer_limit: u64,
    pub duplicated: [u64; 2],
    pub max_len: [usize; 2],
}

/// quiche's view, republished by the driver after every step
#[derive(Clone, Debug, Default)]
pub struct QView {
    pub created: bool,
    pub established_at: Option<u64>,
    pub closed: bool,
    pub draining: bool,
    pub timed_out: bool,
    /// (is_app, code, reason)
    pub local_error: Option<(bool, u64, String)>,
    pub peer_error: Option<(bool, u64, String)>,
    pub close_called: bool,
    pub sent: u64,
    pub recv: u64,
    pub lost: u64,
    pub retrans: u64,
    pub spurious_lost: u64,
    pub stream_retrans_bytes: u64,
    pub data_blocked_sent: u64,
    pub stream_data_blocked_sent: u64,
    pub data_blocked_recv: u64,
    pub stream_data_blocked_recv: u64,
    pub streams_blocked_recv: u64,
    pub send_blocked_episodes: u64,
    pub stream_limit_waits: u64,
    pub recv_errors: BTreeMap<String, u64>,
    pub send_errors: BTreeMap<String, u64>,
    pub max_send_udp: usize,
    pub peer_tp: Option<String>,
    pub alpn: String,
}

/// 1-RTT packets s2n-quic could not authenticate (nothing on the path corrupts datagrams)
#[derive(Clone, Debug, Default)]
pub struct DecryptFailed {
    pub total: u64,
    /// the reconstructed packet number was larger than anything processed so far
    pub decoded_ahead_of_rx: u64,
    pub max_ahead: u64,
}

/// s2n-quic's view (event subscriber + application API)
#[derive(Clone, Debug, Default)]
pub struct SView {
    pub connected_at: Option<u64>,
    pub handshake: Vec<&'static str>,
    /// `connection_closed` event: (class, detail)
    pub closed: Option<(String, String)>,
    pub close_called: bool,
    pub packets_sent: u64,
    pub packets_lost: u64,
    pub bytes_lost: u64,
    pub mtu_probes_lost: u64,
    pub packets_dropped: BTreeMap<String, u64>,
    pub datagrams_dropped: BTreeMap<String, u64>,
    pub duplicate_packets: u64,
    pub frames_sent: BTreeMap<&'static str, u64>,
    pub frames_recv: BTreeMap<&'static str, u64>,
    pub mtu: u16,
    pub largest_rx_1rtt: u64,
    pub largest_ack_sent_1rtt: u64,
    pub decrypt_failed: DecryptFailed,
    pub peer_tp: Option<String>,
    pub app_errors: BTreeMap<String, u64>,
    pub streams_opened: u64,
    pub streams_accepted: u64,
    pub close_ok: u64,
}

pub struct State {
    pub verbose: bool,
    pub s2n_port: u16,
    pub flows: BTreeMap<(u64, Side), Flow>,
    pub problems: Vec<Problem>,
    pub q: QView,
    pub s: SView,
    pub net: NetCounters,
    /// virtual time of the last verified byte / fin on either side
    pub progress_at: u64,
    /// set by the controller when everything was delivered: the closer may close now
    pub close_now: bool,
    /// set when the controller is about to end the simulation (errors after this are expected)
    pub ending: bool,
    pub log_head: Vec<String>,
    pub log_tail: VecDeque<String>,
    pub log_total: u64,
}

pub const LOG_HEAD: usize = 40;
pub const LOG_TAIL: usize = 80;

impl State {
    pub fn new(scn: Arc<Scenario>, verbose: bool) -> Shared {
        let mut flows = BTreeMap::new();
        for (id, from, len) in scn.flows() {
            flows.insert(
                (id, from),
                Flow {
                    len,
                    key: scn.key(id, from),
                    ..Default::default()
                },
            );
        }
        Arc::new(Mutex::new(State {
            // (the scenario itself travels with the caller)
            verbose,
            s2n_port: 0,
            flows,
            problems: Vec::new(),
            q: QView::default(),
            s: SView::default(),
            net: NetCounters::default(),
            progress_at: 0,
            close_now: false,
            ending: false,
            log_head: Vec::new(),
            log_tail: VecDeque::new(),
            log_total: 0,
        }))
    }

    pub fn log_datagram(&mut self, line: String) {
        if self.verbose {
            eprintln!("    net {line}");
        }
        self.log_total += 1;
        if self.log_head.len() < LOG_HEAD {
            self.log_head.push(line);
        } else {
            if self.log_tail.len() >= LOG_TAIL {
                self.log_tail.pop_front();
            }
            self.log_tail.push_back(line);
        }
    }

    pub fn note(&mut self, t_ns: u64, who: &str, line: impl FnOnce() -> String) {
        if self.verbose {
            eprintln!("    {:>10.3}ms {who} {}", t_ns as f64 / 1e6, line());
        }
    }

    pub fn problem(&mut self, t_ns: u64, kind: impl Into<String>, what: impl Into<String>) {
        let p = Problem {
            kind: kind.into(),
            what: what.into(),
            t_ns,
            harness: false,
        };
        if self.verbose {
            eprintln!("    {:>10.3}ms PROBLEM {} - {}", t_ns as f64 / 1e6, p.kind, p.what);
        }
        if self.problems.len() < 32 {
            self.problems.push(p);
        }
    }

    pub fn harness_problem(&mut self, t_ns: u64, kind: impl Into<String>, what: impl Into<String>) {
        self.problem(t_ns, kind, what);
        if let Some(p) = self.problems.last_mut() {
            p.harness = true;
        }
    }

    /// the receiver on `to` got `data` at offset `off` of flow (id, from = other side)
    pub fn received(&mut self, t_ns: u64, id: u64, from: Side, off: u64, data: &[u8]) -> bool {
        let who = from.other().name();
        let Some(f) = self.flows.get(&(id, from)).cloned() else {
            self.problem(
                t_ns,
                format!("{who}_rx_unplanned_stream"),
                format!("{who} received {} bytes on stream {id} which nobody planned", data.len()),
            );
            return false;
        };
        if off != f.verified {
            self.harness_problem(t_ns, "harness_offset", format!("stream {id}: offset bookkeeping {off} != {}", f.verified));
            return false;
        }
        if off + data.len() as u64 > f.len {
            self.problem(
                t_ns,
                format!("{who}_rx_overlong"),
                format!(
                    "{who} received bytes {off}..{} on stream {id} but {} wrote only {} bytes",
                    off + data.len() as u64,
                    from.name(),
                    f.len
                ),
            );
            return false;
        }
        if let Some(i) = vq_util::prf_check(f.key, off, data) {
            self.problem(
                t_ns,
                format!("{who}_rx_mismatch"),
                format!(
                    "{who} received a wrong byte at offset {} of stream {id} ({} -> {who}): got {:#04x}, {} wrote {:#04x}",
                    off + i as u64,
                    from.name(),
                    data[i],
                    from.name(),
                    vq_util::prf_byte(f.key, off + i as u64)
                ),
            );
            return false;
        }
        let f = self.flows.get_mut(&(id, from)).unwrap();
        f.verified += data.len() as u64;
        if !data.is_empty() {
            self.progress_at = t_ns;
        }
        true
    }

    pub fn fin(&mut self, t_ns: u64, id: u64, from: Side) {
        let who = from.other().name();
        let Some(f) = self.flows.get_mut(&(id, from)) else {
            return;
        };
        if f.fin_seen {
            return;
        }
        f.fin_seen = true;
        let (v, l) = (f.verified, f.len);
        self.progress_at = t_ns;
        if v != l {
            self.problem(
                t_ns,
                format!("{who}_rx_short"),
                format!("{who} saw the end of stream {id} after {v} bytes, {} wrote {l}", from.name()),
            );
        }
    }

    pub fn all_delivered(&self) -> bool {
        self.flows.values().all(|f| f.fin_seen && f.verified == f.len)
    }

    pub fn verified_bytes(&self, from: Side) -> u64 {
        self.flows.iter().filter(|(k, _)| k.1 == from).map(|(_, f)| f.verified).sum()
    }

    pub fn finished_flows(&self) -> u64 {
        self.flows.values().filter(|f| f.fin_seen && f.verified == f.len).count() as u64
    }
}
