//! Scenario = (role, stream plan, s2n-quic limits, quiche config, network), all drawn from
//! `mix(seed, index)`; regenerating from (seed, index) is the replay mechanism.

use vq_util::{json, mix, Rng, Value};

#[derive(Clone, Copy, PartialEq, Eq, PartialOrd, Ord, Debug)]
pub enum Side {
    S2n = 0,
    Quiche = 1,
}

impl Side {
    pub fn other(self) -> Side {
        match self {
            Side::S2n => Side::Quiche,
            Side::Quiche => Side::S2n,
        }
    }
    pub fn name(self) -> &'static str {
        match self {
            Side::S2n => "s2n",
            Side::Quiche => "quiche",
        }
    }
}

#[derive(Clone, Copy, PartialEq, Eq, Debug)]
pub enum Role {
    /// s2n-quic server, quiche client
    S2nServer,
    /// s2n-quic client, quiche server
    S2nClient,
}

impl Role {
    pub fn name(self) -> &'static str {
        match self {
            Role::S2nServer => "s2n_server",
            Role::S2nClient => "s2n_client",
        }
    }
    pub fn client(self) -> Side {
        match self {
            Role::S2nServer => Side::Quiche,
            Role::S2nClient => Side::S2n,
        }
    }
}

#[derive(Clone, Debug)]
pub struct StreamPlan {
    /// the QUIC stream id this stream must get (RFC 9000 section 2.1: ids of a type are used in order)
    pub id: u64,
    pub opener: Side,
    pub bidi: bool,
    /// bytes opener -> acceptor
    pub fwd: u64,
    /// bytes acceptor -> opener (bidirectional streams only)
    pub rev: u64,
    /// application write sizes on this stream
    pub chunk_lo: usize,
    pub chunk_hi: usize,
    /// the s2n-quic reader of this stream pauses this long between reads (0 = eager)
    pub s2n_read_pause_us: u64,
}

#[derive(Clone, Debug)]
pub struct S2nCfg {
    pub data_window: u64,
    pub bidi_local_window: u64,
    pub bidi_remote_window: u64,
    pub uni_window: u64,
    pub max_open_local_bidi: u64,
    pub max_open_remote_bidi: u64,
    pub max_open_local_uni: u64,
    pub max_open_remote_uni: u64,
    pub max_mtu: u16,
    pub initial_mtu: u16,
    pub max_send_buffer: u32,
    pub max_ack_delay_ms: u64,
    pub rng_seed: u64,
}

#[derive(Clone, Debug)]
pub struct QCfg {
    pub initial_max_data: u64,
    pub max_stream_data_bidi_local: u64,
    pub max_stream_data_bidi_remote: u64,
    pub max_stream_data_uni: u64,
    pub max_streams_bidi: u64,
    pub max_streams_uni: u64,
    pub max_recv_udp: usize,
    pub max_send_udp: usize,
    pub ack_delay_exponent: u64,
    pub max_ack_delay_ms: u64,
    pub cc: &'static str,
    pub scid_len: usize,
    pub active_cid_limit: u64,
    pub pmtud: bool,
    pub rng_seed: u64,
}

#[derive(Clone, Debug)]
pub struct NetCfg {
    pub delay_us: u64,
    pub jitter_us: u64,
    /// loss probability, [towards s2n, towards quiche]
    pub loss: [f64; 2],
    pub dup: f64,
    /// largest UDP payload the path carries
    pub path_payload: usize,
    pub seed: u64,
}

#[derive(Clone, Debug)]
pub struct Scenario {
    pub seed: u64,
    pub index: u64,
    pub sub: u64,
    pub role: Role,
    pub streams: Vec<StreamPlan>,
    pub s2n: S2nCfg,
    pub q: QCfg,
    pub net: NetCfg,
    pub closer: Side,
    pub close_code: u64,
    pub oversize_rx: bool,
}

/// how many scenarios in 1024 may have quiche send datagrams larger than s2n-quic's receive buffer
pub static OVERSIZE_PER_1024: std::sync::atomic::AtomicU64 = std::sync::atomic::AtomicU64::new(64);

pub const DEFAULT_WINDOW: u64 = u64::MAX; // "leave the implementation's default"

/// window buckets: tiny / small / medium / large / implementation default
fn draw_window(r: &mut Rng, tiny_from: u64) -> u64 {
    match r.below(10) {
        0 | 1 => r.range(tiny_from, 200),
        2 | 3 => r.range(200, 4_000),
        4 | 5 => r.range(4_000, 64_000),
        6 | 7 => r.range(64_000, 1_000_000),
        _ => DEFAULT_WINDOW,
    }
}

fn draw_len(r: &mut Rng) -> u64 {
    match r.below(10) {
        0 => 0,
        1 | 2 => r.range(1, 2_000),
        3..=5 => r.range(2_000, 50_000),
        _ => r.range(50_000, 300_000),
    }
}

fn draw_streams_limit(r: &mut Rng) -> u64 {
    match r.below(4) {
        0 => 1,
        1 => r.range(2, 4),
        _ => 100,
    }
}

pub const S2N_DEFAULT_DATA_WINDOW: u64 = 1_500_000; // order of magnitude only (used for caps)
pub const Q_DEFAULT_WINDOW: u64 = 10_000_000;

fn eff(w: u64, default: u64) -> u64 {
    if w == DEFAULT_WINDOW {
        default
    } else {
        w
    }
}

impl Scenario {
    pub fn generate(seed: u64, index: u64) -> Scenario {
        let sub = mix(seed, index);
        let mut r = Rng::new(sub);
        // alternate roles by index so that every shard covers both, everything else is drawn
        let role = if (index ^ (seed & 1)) & 1 == 0 {
            Role::S2nServer
        } else {
            Role::S2nClient
        };

        // ---- network
        let delay_us = *r.pick(&[500u64, 2_000, 5_000, 10_000, 25_000]);
        let jitter_us = match r.below(4) {
            0 => 0,
            1 => r.range(0, delay_us / 2),
            _ => r.range(delay_us / 2, delay_us * 3),
        };
        let loss_class = r.below(5);
        let draw_loss = |r: &mut Rng| match loss_class {
            0 | 1 => 0.0,
            2 => 0.01,
            3 => 0.03,
            _ => 0.10,
        } * if r.chance(1, 4) { 0.5 } else { 1.0 };
        let loss = [draw_loss(&mut r), draw_loss(&mut r)];
        let dup = if r.chance(1, 3) { 0.02 } else { 0.0 };

        // ---- quiche
        let max_send_udp = r.range(1200, 1500) as usize;
        let mut q = QCfg {
            initial_max_data: draw_window(&mut r, 20),
            max_stream_data_bidi_local: draw_window(&mut r, 20),
            max_stream_data_bidi_remote: draw_window(&mut r, 20),
            max_stream_data_uni: draw_window(&mut r, 20),
            max_streams_bidi: draw_streams_limit(&mut r),
            max_streams_uni: draw_streams_limit(&mut r),
            max_recv_udp: if r.chance(1, 4) {
                65527
            } else {
                r.range(1200, 1500) as usize
            },
            max_send_udp,
            ack_delay_exponent: if r.chance(1, 2) { 3 } else { r.range(0, 20) },
            max_ack_delay_ms: if r.chance(1, 2) { 25 } else { r.range(1, 100) },
            cc: *r.pick(&["cubic", "reno", "cubic", "bbr2_gcongestion"]),
            scid_len: match (role, r.below(4)) {
                (Role::S2nServer, 0) => 0,
                (_, 1) => r.range(4, 20) as usize,
                _ => 16,
            },
            active_cid_limit: r.range(2, 8),
            pmtud: r.chance(1, 4),
            rng_seed: r.next(),
        };

        // ---- s2n-quic
        let max_mtu = r.range(1228, 1500) as u16;
        let s2n = S2nCfg {
            data_window: draw_window(&mut r, 32),
            bidi_local_window: draw_window(&mut r, 32),
            bidi_remote_window: draw_window(&mut r, 32),
            uni_window: draw_window(&mut r, 32),
            max_open_local_bidi: draw_streams_limit(&mut r),
            max_open_remote_bidi: draw_streams_limit(&mut r),
            max_open_local_uni: draw_streams_limit(&mut r),
            max_open_remote_uni: draw_streams_limit(&mut r),
            max_mtu,
            initial_mtu: if r.chance(1, 2) {
                1228
            } else {
                r.range(1228, max_mtu as u64) as u16
            },
            max_send_buffer: if r.chance(1, 3) {
                r.range(2_000, 100_000) as u32
            } else {
                0 // default
            },
            max_ack_delay_ms: if r.chance(1, 2) { 25 } else { r.range(1, 100) },
            rng_seed: r.next(),
        };

        // s2n-quic never advertises max_udp_payload_size, yet IO providers without GRO (the
        // testing provider among them) size their receive buffers by `max_mtu` and truncate
        // anything larger (finding `rx_truncation_unadvertised_limit`, see README). Keep quiche's
        // datagrams within s2n-quic's receive buffer except in a small "oversize" class, so
        // that the finding stays visible without masking everything else.
        let oversize_rx = r.below(1024) < OVERSIZE_PER_1024.load(std::sync::atomic::Ordering::Relaxed);
        if !oversize_rx {
            q.max_send_udp = q.max_send_udp.min(s2n.max_mtu as usize);
        }
        let max_send_udp = q.max_send_udp;
        // the path carries everything quiche may send without probing; s2n-quic's MTU probes
        // beyond it are black-holed like on a real path
        let path_payload = if q.pmtud || r.chance(1, 2) {
            1500
        } else {
            r.range(max_send_udp as u64, 1500) as usize
        };
        let net = NetCfg {
            delay_us,
            jitter_us,
            loss,
            dup,
            path_payload,
            seed: r.next(),
        };

        // ---- streams
        let n = r.range(1, 4) as usize;
        let client = role.client();
        let mut next_id = [[0u64; 2]; 2]; // [opener is server][uni]
        let mut streams = Vec::new();
        for _ in 0..n {
            let opener = if r.chance(1, 2) { Side::S2n } else { Side::Quiche };
            let bidi = r.chance(3, 5);
            let by_server = (opener != client) as usize;
            let k = &mut next_id[by_server][!bidi as usize];
            let id = *k * 4 + by_server as u64 + if bidi { 0 } else { 2 };
            *k += 1;
            let chunk_lo = *r.pick(&[1usize, 100, 1_000, 10_000]);
            let chunk_hi = chunk_lo * r.range(1, 20) as usize;
            streams.push(StreamPlan {
                id,
                opener,
                bidi,
                fwd: draw_len(&mut r),
                rev: if bidi { draw_len(&mut r) } else { 0 },
                chunk_lo,
                chunk_hi,
                s2n_read_pause_us: if r.chance(1, 4) { r.range(100, 5_000) } else { 0 },
            });
        }

        // a stream-count limit of zero on the accepting side would make opening impossible by
        // construction; 1 is the smallest meaningful value (already the bucket minimum)

        let mut s = Scenario {
            seed,
            index,
            sub,
            role,
            streams,
            s2n,
            q,
            net,
            closer: if r.chance(1, 2) { Side::S2n } else { Side::Quiche },
            close_code: *r.pick(&[0u64, 1, 7, 0x101, 0x3fff_ffff]),
            oversize_rx,
        };
        s.cap_sizes();
        s
    }

    /// the receive window that governs the flow `from -> other` on stream `p`
    pub fn stream_window(&self, p: &StreamPlan, from: Side) -> u64 {
        match from {
            // receiver is s2n
            Side::Quiche => eff(
                if !p.bidi {
                    self.s2n.uni_window
                } else if p.opener == Side::S2n {
                    self.s2n.bidi_local_window
                } else {
                    self.s2n.bidi_remote_window
                },
                S2N_DEFAULT_DATA_WINDOW,
            ),
            // receiver is quiche
            Side::S2n => eff(
                if !p.bidi {
                    self.q.max_stream_data_uni
                } else if p.opener == Side::Quiche {
                    self.q.max_stream_data_bidi_local
                } else {
                    self.q.max_stream_data_bidi_remote
                },
                Q_DEFAULT_WINDOW,
            ),
        }
    }

    pub fn conn_window(&self, from: Side) -> u64 {
        match from {
            Side::Quiche => eff(self.s2n.data_window, S2N_DEFAULT_DATA_WINDOW),
            Side::S2n => eff(self.q.initial_max_data, Q_DEFAULT_WINDOW),
        }
    }

    pub fn rtt_us(&self) -> u64 {
        2 * self.net.delay_us + self.net.jitter_us + 2_000
    }

    /// Keep the scenario finishable in a few seconds of virtual time: a flow takes about
    /// `len / window` flow-control rounds of two RTTs each, and the loss rate bounds the
    /// congestion-controlled throughput.
    fn cap_sizes(&mut self) {
        const BUDGET_US: u64 = 4_000_000;
        let rtt = self.rtt_us();
        let n = self.streams.len() as u64;
        let rounds = (BUDGET_US / n / (2 * rtt)).clamp(4, 300);
        let plans = self.streams.clone();
        for (i, p) in plans.iter().enumerate() {
            let wf = self.stream_window(p, p.opener);
            let wr = self.stream_window(p, p.opener.other());
            self.streams[i].fwd = p.fwd.min(wf.saturating_mul(rounds));
            self.streams[i].rev = p.rev.min(wr.saturating_mul(rounds));
        }
        for from in [Side::S2n, Side::Quiche] {
            let conn_rounds = (BUDGET_US / (2 * rtt)).clamp(4, 300);
            let mut cap = self.conn_window(from).saturating_mul(conn_rounds);
            let p = self.net.loss[(from == Side::S2n) as usize].max(self.net.loss[(from != Side::S2n) as usize] / 4.0);
            if p > 0.0 {
                // Mathis: rate ~ MSS * 1.22 / (RTT * sqrt(p))
                let rate = 1200.0 * 1.22 / (rtt as f64 / 1e6 * p.sqrt());
                cap = cap.min((rate * BUDGET_US as f64 / 1e6) as u64);
            }
            let total = self.total_bytes(from);
            if total > cap && total > 0 {
                for s in self.streams.iter_mut() {
                    if s.opener == from {
                        s.fwd = (s.fwd as u128 * cap as u128 / total as u128) as u64;
                    } else {
                        s.rev = (s.rev as u128 * cap as u128 / total as u128) as u64;
                    }
                }
            }
        }
    }

    /// (stream id, sending side, length)
    pub fn flows(&self) -> Vec<(u64, Side, u64)> {
        let mut v = Vec::new();
        for s in &self.streams {
            v.push((s.id, s.opener, s.fwd));
            if s.bidi {
                v.push((s.id, s.opener.other(), s.rev));
            }
        }
        v
    }

    pub fn plan(&self, id: u64) -> Option<&StreamPlan> {
        self.streams.iter().find(|s| s.id == id)
    }

    pub fn key(&self, id: u64, from: Side) -> u64 {
        mix(mix(self.sub, id), from as u64 + 1)
    }

    pub fn total_bytes(&self, from: Side) -> u64 {
        self.flows().iter().filter(|f| f.1 == from).map(|f| f.2).sum()
    }

    pub fn min_window(&self) -> u64 {
        let mut m = u64::MAX;
        for s in &self.streams {
            if s.fwd > 0 {
                m = m.min(self.stream_window(s, s.opener)).min(self.conn_window(s.opener));
            }
            if s.bidi && s.rev > 0 {
                m = m
                    .min(self.stream_window(s, s.opener.other()))
                    .min(self.conn_window(s.opener.other()));
            }
        }
        m
    }

    pub fn window_bucket(&self) -> &'static str {
        match self.min_window() {
            0..=199 => "tiny",
            200..=3_999 => "small",
            4_000..=63_999 => "medium",
            64_000..=999_999 => "large",
            _ => "default",
        }
    }

    pub fn loss_class(&self) -> &'static str {
        let l = self.net.loss[0].max(self.net.loss[1]);
        if l == 0.0 {
            "none"
        } else if l < 0.05 {
            "low"
        } else {
            "high"
        }
    }

    pub fn stream_mix(&self) -> String {
        let b = self.streams.iter().filter(|s| s.bidi).count();
        let u = self.streams.len() - b;
        let s = self.streams.iter().any(|s| s.opener == Side::S2n);
        let q = self.streams.iter().any(|s| s.opener == Side::Quiche);
        format!(
            "{}b{}u{}{}",
            b,
            u,
            if s { "S" } else { "" },
            if q { "Q" } else { "" }
        )
    }

    pub fn reorder(&self) -> bool {
        self.net.jitter_us > self.net.delay_us / 2
    }

    pub fn class(&self) -> String {
        format!(
            "{}/{}/loss-{}/{}{}{}",
            self.role.name(),
            self.window_bucket(),
            self.loss_class(),
            self.stream_mix(),
            if self.reorder() { "/reorder" } else { "" },
            if self.oversize_rx && self.q.max_send_udp > self.s2n.max_mtu as usize { "/oversize" } else { "" }
        )
    }

    pub fn to_json(&self) -> Value {
        let w = |v: u64| if v == DEFAULT_WINDOW { json!("default") } else { json!(v) };
        json!({
            "seed": self.seed, "index": self.index, "role": self.role.name(),
            "closer": self.closer.name(), "close_code": self.close_code, "oversize_rx": self.oversize_rx,
            "streams": self.streams.iter().map(|s| json!({
                "id": s.id, "opener": s.opener.name(), "bidi": s.bidi, "fwd": s.fwd, "rev": s.rev,
                "chunk": [s.chunk_lo, s.chunk_hi], "s2n_read_pause_us": s.s2n_read_pause_us,
            })).collect::<Vec<_>>(),
            "s2n": {
                "data_window": w(self.s2n.data_window),
                "bidi_local_window": w(self.s2n.bidi_local_window),
                "bidi_remote_window": w(self.s2n.bidi_remote_window),
                "uni_window": w(self.s2n.uni_window),
                "max_open_local_bidi": self.s2n.max_open_local_bidi,
                "max_open_remote_bidi": self.s2n.max_open_remote_bidi,
                "max_open_local_uni": self.s2n.max_open_local_uni,
                "max_open_remote_uni": self.s2n.max_open_remote_uni,
                "max_mtu": self.s2n.max_mtu, "initial_mtu": self.s2n.initial_mtu,
                "max_send_buffer": self.s2n.max_send_buffer,
                "max_ack_delay_ms": self.s2n.max_ack_delay_ms,
            },
            "quiche": {
                "initial_max_data": w(self.q.initial_max_data),
                "max_stream_data_bidi_local": w(self.q.max_stream_data_bidi_local),
                "max_stream_data_bidi_remote": w(self.q.max_stream_data_bidi_remote),
                "max_stream_data_uni": w(self.q.max_stream_data_uni),
                "max_streams_bidi": self.q.max_streams_bidi,
                "max_streams_uni": self.q.max_streams_uni,
                "max_recv_udp": self.q.max_recv_udp, "max_send_udp": self.q.max_send_udp,
                "ack_delay_exponent": self.q.ack_delay_exponent,
                "max_ack_delay_ms": self.q.max_ack_delay_ms,
                "cc": self.q.cc, "scid_len": self.q.scid_len,
                "active_cid_limit": self.q.active_cid_limit, "pmtud": self.q.pmtud,
            },
            "net": {
                "delay_us": self.net.delay_us, "jitter_us": self.net.jitter_us,
                "loss_to_s2n": self.net.loss[0], "loss_to_quiche": self.net.loss[1],
                "dup": self.net.dup, "path_payload": self.net.path_payload,
            },
        })
    }
}
