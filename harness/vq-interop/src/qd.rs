//! The independent peer: a quiche connection (client or server) driven by one task over a
//! testing-IO `Socket`, with an application that writes / checks the PRF streams.

use crate::{
    clock::VirtualClock,
    net::{hex, now_ns},
    scen::{QCfg, Role, Scenario, Side, DEFAULT_WINDOW},
    state::{QView, Shared},
};
use futures::future::{select, Either};
use s2n_quic::provider::io::testing::{time::delay, Handle as IoHandle, Socket};
use s2n_quic_core::{crypto::tls::testing::certificates, inet::ExplicitCongestionNotification};
use std::{collections::BTreeMap, net::SocketAddr, sync::Arc, time::Duration};
use vq_util::Rng;

pub const ALPN: &[u8] = b"h3";

fn tls_builder(server: bool) -> Result<boring::ssl::SslContextBuilder, boring::error::ErrorStack> {
    use boring::{pkey::PKey, ssl, x509::X509};
    let mut b = ssl::SslContextBuilder::new(ssl::SslMethod::tls())?;
    let certs = X509::stack_from_pem(certificates::CERT_PEM.as_bytes())?;
    if server {
        b.set_certificate(&certs[0])?;
        for c in certs.iter().skip(1) {
            b.add_extra_chain_cert(c.clone())?;
        }
        let key = PKey::private_key_from_pem(certificates::KEY_PEM.as_bytes())?;
        b.set_private_key(&key)?;
    } else {
        // the client trusts the repository's test certificate, like the s2n-quic test client does
        for c in certs {
            b.cert_store_mut().add_cert(c)?;
        }
    }
    Ok(b)
}

pub fn config(c: &QCfg, server: bool) -> quiche::Config {
    let mut cfg = quiche::Config::with_boring_ssl_ctx_builder(
        quiche::PROTOCOL_VERSION,
        tls_builder(server).expect("boring context"),
    )
    .expect("quiche config");
    cfg.set_application_protos(&[ALPN]).unwrap();
    cfg.verify_peer(!server);
    let w = |v: u64, d: u64| if v == DEFAULT_WINDOW { d } else { v };
    cfg.set_initial_max_data(w(c.initial_max_data, 10_000_000));
    cfg.set_initial_max_stream_data_bidi_local(w(c.max_stream_data_bidi_local, 1_000_000));
    cfg.set_initial_max_stream_data_bidi_remote(w(c.max_stream_data_bidi_remote, 1_000_000));
    cfg.set_initial_max_stream_data_uni(w(c.max_stream_data_uni, 1_000_000));
    cfg.set_initial_max_streams_bidi(c.max_streams_bidi);
    cfg.set_initial_max_streams_uni(c.max_streams_uni);
    cfg.set_max_recv_udp_payload_size(c.max_recv_udp);
    cfg.set_max_send_udp_payload_size(c.max_send_udp);
    cfg.set_ack_delay_exponent(c.ack_delay_exponent);
    cfg.set_max_ack_delay(c.max_ack_delay_ms);
    cfg.set_active_connection_id_limit(c.active_cid_limit);
    cfg.set_cc_algorithm_name(c.cc).unwrap();
    cfg.set_max_idle_timeout(120_000);
    cfg.set_initial_rtt(Duration::from_millis(100));
    cfg.discover_pmtu(c.pmtud);
    // the driver does not implement release-time pacing of datagrams
    cfg.enable_pacing(false);
    cfg.set_disable_active_migration(true);
    cfg
}

struct QSend {
    key: u64,
    len: u64,
    off: u64,
    fin_sent: bool,
    chunk: usize,
    blocked: bool,
}

struct QRecv {
    off: u64,
    fin: bool,
}

pub struct Driver {
    sh: Shared,
    scn: Arc<Scenario>,
    socket: Socket,
    local: SocketAddr,
    peer: Option<SocketAddr>,
    conn: Option<quiche::Connection>,
    cfg: quiche::Config,
    rng: Rng,
    clock: Option<VirtualClock>,
    /// quiche-initiated streams not yet opened, in id order per type
    to_open: Vec<u64>,
    sends: BTreeMap<u64, QSend>,
    recvs: BTreeMap<u64, QRecv>,
    view: QView,
    close_called: bool,
    out: Vec<u8>,
    buf: Vec<u8>,
}

fn err_name(e: &quiche::Error) -> String {
    let s = format!("{e:?}");
    match s.find('(') {
        Some(i) => s[..i].to_string(),
        None => s,
    }
}

impl Driver {
    pub fn new(
        handle: &IoHandle,
        scn: Arc<Scenario>,
        sh: Shared,
        clock: Option<VirtualClock>,
    ) -> (Driver, SocketAddr) {
        let socket = handle.builder().with_max_mtu(1500).build().unwrap().socket();
        let local = socket.local_addr().unwrap();
        let cfg = config(&scn.q, scn.role == Role::S2nClient);
        let to_open = scn
            .streams
            .iter()
            .filter(|p| p.opener == Side::Quiche)
            .map(|p| p.id)
            .collect();
        let rng = Rng::new(scn.q.rng_seed);
        (
            Driver {
                sh,
                scn,
                socket,
                local,
                peer: None,
                conn: None,
                cfg,
                rng,
                clock,
                to_open,
                sends: BTreeMap::new(),
                recvs: BTreeMap::new(),
                view: QView::default(),
                close_called: false,
                out: vec![0; 65535],
                buf: vec![0; 65535],
            },
            local,
        )
    }

    fn tick_clock(&self) {
        if let Some(c) = &self.clock {
            c.set(now_ns());
        }
    }

    fn scid(&mut self) -> Vec<u8> {
        let mut v = vec![0u8; self.scn.q.scid_len];
        self.rng.fill(&mut v);
        v
    }

    /// client role: create the connection towards the s2n-quic server
    pub fn connect(&mut self, server: SocketAddr) {
        self.tick_clock();
        let scid = self.scid();
        let scid = quiche::ConnectionId::from_vec(scid);
        let conn = quiche::connect(Some("localhost"), &scid, self.local, server, &mut self.cfg)
            .expect("quiche::connect");
        self.peer = Some(server);
        self.conn = Some(conn);
        self.view.created = true;
    }

    fn on_datagram(&mut self, from: SocketAddr, mut payload: Vec<u8>) {
        if self.conn.is_none() {
            // server role: the first Initial creates the connection
            let hdr = match quiche::Header::from_slice(&mut payload, quiche::MAX_CONN_ID_LEN) {
                Ok(h) => h,
                Err(e) => {
                    *self.view.recv_errors.entry(format!("header:{}", err_name(&e))).or_insert(0) += 1;
                    return;
                }
            };
            if hdr.ty != quiche::Type::Initial {
                *self.view.recv_errors.entry("pre_accept_non_initial".into()).or_insert(0) += 1;
                return;
            }
            if !quiche::version_is_supported(hdr.version) {
                *self.view.recv_errors.entry("unsupported_version".into()).or_insert(0) += 1;
                self.sh.lock().unwrap().problem(
                    now_ns(),
                    "q_unsupported_version",
                    format!("the s2n-quic client's first Initial carries version {:#x}", hdr.version),
                );
                return;
            }
            let mut scid = self.scid();
            if scid.is_empty() {
                scid = vec![0xc7; 16];
            }
            let scid = quiche::ConnectionId::from_vec(scid);
            {
                let mut g = self.sh.lock().unwrap();
                g.note(now_ns(), "quiche", || {
                    format!("accepting: dcid={} scid={}", hex(&hdr.dcid, 20), hex(&hdr.scid, 20))
                });
            }
            match quiche::accept(&scid, None, self.local, from, &mut self.cfg) {
                Ok(c) => {
                    self.conn = Some(c);
                    self.peer = Some(from);
                    self.view.created = true;
                }
                Err(e) => {
                    self.sh.lock().unwrap().harness_problem(now_ns(), "harness_quiche_accept", format!("{e:?}"));
                    return;
                }
            }
        }
        let conn = self.conn.as_mut().unwrap();
        let info = quiche::RecvInfo {
            from,
            to: self.local,
        };
        match conn.recv(&mut payload, info) {
            Ok(_) => {}
            Err(quiche::Error::Done) => {}
            Err(e) => {
                let name = err_name(&e);
                let mut g = self.sh.lock().unwrap();
                g.note(now_ns(), "quiche", || format!("recv() -> {e:?}"));
                drop(g);
                *self.view.recv_errors.entry(name).or_insert(0) += 1;
            }
        }
    }

    fn flush(&mut self) {
        let Some(conn) = self.conn.as_mut() else { return };
        loop {
            match conn.send(&mut self.out) {
                Ok((n, info)) => {
                    let _ = self.socket.send_to(
                        info.to,
                        ExplicitCongestionNotification::NotEct,
                        self.out[..n].to_vec(),
                    );
                }
                Err(quiche::Error::Done) => break,
                Err(e) => {
                    *self.view.send_errors.entry(err_name(&e)).or_insert(0) += 1;
                    break;
                }
            }
        }
    }

    /// quiche's application: open, write, read
    fn app(&mut self) {
        let now = now_ns();
        let Some(conn) = self.conn.as_mut() else { return };
        if !conn.is_established() || conn.is_closed() || conn.is_draining() || self.close_called {
            return;
        }

        // ---- read everything readable, compare against what s2n-quic's application wrote
        let readable: Vec<u64> = conn.readable().collect();
        for id in readable {
            // a stream initiated by s2n-quic shows up here first
            if !self.recvs.contains_key(&id) {
                let plan = self.scn.plan(id);
                let known = match plan {
                    Some(p) if p.opener == Side::S2n => true,
                    Some(p) => p.bidi, // our own bidirectional stream: the reverse flow
                    None => false,
                };
                if !known {
                    self.sh.lock().unwrap().problem(
                        now,
                        "quiche_rx_unplanned_stream",
                        format!("quiche reports stream {id} readable; s2n-quic's application never opened it"),
                    );
                    // drain it so that it does not show up again
                    while conn.stream_recv(id, &mut self.buf).is_ok() {}
                    continue;
                }
                self.recvs.insert(id, QRecv { off: 0, fin: false });
                let p = plan.unwrap();
                if p.opener == Side::S2n && p.bidi && !self.sends.contains_key(&id) {
                    let g = self.sh.lock().unwrap();
                    let f = &g.flows[&(id, Side::Quiche)];
                    self.sends.insert(
                        id,
                        QSend {
                            key: f.key,
                            len: f.len,
                            off: 0,
                            fin_sent: false,
                            chunk: p.chunk_hi.max(1),
                            blocked: false,
                        },
                    );
                }
            }
            loop {
                let r = self.recvs.get_mut(&id).unwrap();
                match conn.stream_recv(id, &mut self.buf) {
                    Ok((n, fin)) => {
                        let mut g = self.sh.lock().unwrap();
                        let ok = g.received(now, id, Side::S2n, r.off, &self.buf[..n]);
                        r.off += n as u64;
                        if fin && ok {
                            r.fin = true;
                            g.fin(now, id, Side::S2n);
                        }
                        if !ok || fin {
                            break;
                        }
                    }
                    Err(quiche::Error::Done) => break,
                    Err(e) => {
                        self.sh.lock().unwrap().problem(
                            now,
                            format!("quiche_rx_error:{}", err_name(&e)),
                            format!("quiche stream_recv({id}) at offset {} failed: {e:?}", r.off),
                        );
                        break;
                    }
                }
            }
        }

        // ---- open the next stream when the peer's stream limit allows it
        while let Some(&id) = self.to_open.first() {
            let p = self.scn.plan(id).unwrap();
            let left = if p.bidi {
                conn.peer_streams_left_bidi()
            } else {
                conn.peer_streams_left_uni()
            };
            if left == 0 {
                self.view.stream_limit_waits += 1;
                break;
            }
            let g = self.sh.lock().unwrap();
            let f = &g.flows[&(id, Side::Quiche)];
            self.sends.insert(
                id,
                QSend {
                    key: f.key,
                    len: f.len,
                    off: 0,
                    fin_sent: false,
                    chunk: p.chunk_hi.max(1),
                    blocked: false,
                },
            );
            drop(g);
            self.to_open.remove(0);
            // create the stream right away so that ids are used in order
            let s = self.sends.get_mut(&id).unwrap();
            Self::write(conn, &self.sh, &mut self.view, id, s, now);
        }

        // ---- write
        for (id, s) in self.sends.iter_mut() {
            if !s.fin_sent {
                Self::write(conn, &self.sh, &mut self.view, *id, s, now);
            }
        }
    }

    fn write(
        conn: &mut quiche::Connection,
        sh: &Shared,
        view: &mut QView,
        id: u64,
        s: &mut QSend,
        now: u64,
    ) {
        // bounded work per step; the task is woken by every ACK / MAX_DATA anyway
        for _ in 0..64 {
            let n = (s.len - s.off).min(s.chunk as u64) as usize;
            let fin = s.off + n as u64 == s.len;
            let data = vq_util::prf_vec(s.key, s.off, n);
            match conn.stream_send(id, &data, fin) {
                Ok(w) => {
                    s.off += w as u64;
                    let mut g = sh.lock().unwrap();
                    let f = g.flows.get_mut(&(id, Side::Quiche)).unwrap();
                    f.sent = s.off;
                    if w == n && fin {
                        s.fin_sent = true;
                        f.send_finished = true;
                        return;
                    }
                    if w < n {
                        if !s.blocked {
                            s.blocked = true;
                            view.send_blocked_episodes += 1;
                        }
                        return;
                    }
                    s.blocked = false;
                }
                Err(quiche::Error::Done) => {
                    if !s.blocked {
                        s.blocked = true;
                        view.send_blocked_episodes += 1;
                    }
                    return;
                }
                Err(quiche::Error::StreamLimit) => {
                    view.stream_limit_waits += 1;
                    return;
                }
                Err(e) => {
                    let ending = sh.lock().unwrap().ending;
                    if !ending {
                        sh.lock().unwrap().problem(
                            now,
                            format!("quiche_tx_error:{}", err_name(&e)),
                            format!("quiche stream_send({id}) at offset {} failed: {e:?}", s.off),
                        );
                    }
                    s.fin_sent = true; // stop trying
                    return;
                }
            }
        }
    }

    fn publish(&mut self) {
        let now = now_ns();
        let v = &mut self.view;
        if let Some(c) = self.conn.as_ref() {
            if c.is_established() && v.established_at.is_none() {
                v.established_at = Some(now);
                v.alpn = String::from_utf8_lossy(c.application_proto()).to_string();
                v.peer_tp = c.peer_transport_params().map(|p| format!("{p:?}"));
                let mut g = self.sh.lock().unwrap();
                g.note(now, "quiche", || "established".to_string());
            }
            v.closed = c.is_closed();
            v.draining = c.is_draining();
            v.timed_out = c.is_timed_out();
            let ce = |e: &quiche::ConnectionError| {
                (e.is_app, e.error_code, String::from_utf8_lossy(&e.reason).to_string())
            };
            let le = c.local_error().map(ce);
            let pe = c.peer_error().map(ce);
            if le != v.local_error || pe != v.peer_error {
                let mut g = self.sh.lock().unwrap();
                g.note(now, "quiche", || format!("local_error={le:?} peer_error={pe:?}"));
            }
            v.local_error = le;
            v.peer_error = pe;
            let st = c.stats();
            v.sent = st.sent as u64;
            v.recv = st.recv as u64;
            v.lost = st.lost as u64;
            v.retrans = st.retrans as u64;
            v.spurious_lost = st.spurious_lost as u64;
            v.stream_retrans_bytes = st.stream_retrans_bytes;
            v.data_blocked_sent = st.data_blocked_sent_count;
            v.stream_data_blocked_sent = st.stream_data_blocked_sent_count;
            v.data_blocked_recv = st.data_blocked_recv_count;
            v.stream_data_blocked_recv = st.stream_data_blocked_recv_count;
            v.streams_blocked_recv = st.streams_blocked_bidi_recv_count + st.streams_blocked_uni_recv_count;
            v.max_send_udp = c.max_send_udp_payload_size();
        }
        v.close_called = self.close_called;
        self.sh.lock().unwrap().q = v.clone();
    }

    pub async fn run(mut self) {
        self.tick_clock();
        self.flush();
        loop {
            self.tick_clock();
            // ---- input
            loop {
                match self.socket.try_recv_from() {
                    Ok(Some((from, _ecn, payload))) => self.on_datagram(from, payload),
                    Ok(None) => break,
                    Err(_) => return, // the simulation is shutting down
                }
            }
            // ---- timers
            if let Some(c) = self.conn.as_mut() {
                if c.timeout() == Some(Duration::ZERO) {
                    c.on_timeout();
                }
            }
            // ---- application
            self.app();
            let (close_now, ending) = {
                let g = self.sh.lock().unwrap();
                (g.close_now, g.ending)
            };
            if ending {
                self.publish();
                return;
            }
            if close_now && self.scn.closer == Side::Quiche && !self.close_called {
                if let Some(c) = self.conn.as_mut() {
                    let code = self.scn.close_code;
                    let r = c.close(true, code, b"done");
                    let mut g = self.sh.lock().unwrap();
                    g.note(now_ns(), "quiche", || format!("application closes the connection with code {code}: {r:?}"));
                    self.close_called = true;
                }
            }
            // ---- output
            self.flush();
            self.publish();

            // ---- wait for a datagram or the next timer (at most 20 ms: the application
            // also has to notice the controller's signals)
            let mut wait = Duration::from_millis(20);
            if let Some(c) = self.conn.as_ref() {
                if let Some(t) = c.timeout() {
                    wait = wait.min(t);
                }
                if c.is_closed() {
                    wait = Duration::from_millis(20);
                }
            }
            let wait = wait.max(Duration::from_micros(10));
            let pending = {
                let rx = std::pin::pin!(self.socket.recv_from());
                let timer = delay(wait);
                match select(rx, timer).await {
                    Either::Left((Ok(p), _)) => Some(p),
                    Either::Left((Err(_), _)) => return,
                    Either::Right(_) => None,
                }
            };
            if let Some((from, _ecn, payload)) = pending {
                self.tick_clock();
                self.on_datagram(from, payload);
            }
        }
    }
}
