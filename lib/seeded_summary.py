#!/usr/bin/env python3
"""Writes seeded/SUMMARY.md: one row per seeded change with what it breaks, whether it was
confirmed independently (confirm.json) and which monitor signatures caught it (result.json)."""
import json, os

ROOT = os.path.dirname(os.path.dirname(os.path.abspath(__file__)))
S = os.path.join(ROOT, "seeded")
rows = []
for sid in sorted(os.listdir(S)):
    d = os.path.join(S, sid)
    mp = os.path.join(d, "meta.json")
    if not os.path.exists(mp):
        continue
    m = json.load(open(mp))
    conf = json.load(open(os.path.join(d, "confirm.json"))) if os.path.exists(os.path.join(d, "confirm.json")) else None
    res = json.load(open(os.path.join(d, "result.json"))) if os.path.exists(os.path.join(d, "result.json")) else None
    light = json.load(open(os.path.join(d, "confirm_light.json"))) if os.path.exists(os.path.join(d, "confirm_light.json")) else None
    if conf is None and light is not None:
        u = "; ".join(f"{x['crate']} --lib {sum(int(p) for _, p, _ in x['results'])} passed" for x in light.get("unit_tests_with_patch", []))
        c = (f"light only (lib/confirm_light.py: {u}; demo fails with / passes without); full suite not re-run here" if light.get("confirmed_light")
             else "NO (light): " + (light.get("error") or "see confirm_light.json"))
    elif conf is None:
        c = "not run (only the producing agent's own runs)"
    elif conf.get("confirmed"):
        e = conf["existing_tests_with_patch"]
        c = f"yes ({e['run']} existing tests of {e.get('filter', 'the workspace')} pass; demo fails with / passes without)"
    else:
        c = "NO: " + (conf.get("error") or m.get("confirm_note") or "see confirm.json")
    if res is None:
        r = "not run"
    else:
        sigs = {}
        for run in res["runs"]:
            for k, v in run["signatures"].items():
                sigs[k] = sigs.get(k, 0) + v
        r = ("**caught**: " + ", ".join(f"`{k}` x{v}" for k, v in sorted(sigs.items()))) if sigs else "**not caught**"
        r += " — " + "; ".join((x["job"].get("profile") or x["job"].get("runner") or " ".join(x["job"].get("args", [])[:2])) + f" ({x['evaluations']} evals)" for x in res["runs"])
    rows.append((sid, m["property"], m["title"], m["needs_to_manifest"], c, r))

with open(os.path.join(S, "SUMMARY.md"), "w") as f:
    f.write("# Seeded changes and what the checks made of them\n\n")
    f.write("Each change was written by a fresh sub-agent that saw only the property text and a scratch worktree; "
            "`patch.diff`, `demo.diff`, `notes.md` are its output, `meta.json` says what it needs to manifest and which jobs were run "
            "against it, `confirm.json` is the independent confirmation (`lib/confirm_seed.py`), `result.json` the detection run "
            "(`lib/seeded.py`, scratch copy of /repo, never /repo itself).\n\n")
    f.write("| id | property | change | needs | confirmed | detection |\n|---|---|---|---|---|---|\n")
    for r in rows:
        f.write("| " + " | ".join(str(x).replace("|", "\\|").replace("\n", " ") for x in r) + " |\n")
    n = len(rows)
    caught = sum(1 for r in rows if r[5].startswith("**caught**"))
    f.write(f"\n{caught} of {n} caught.\n")
print(f"{len(rows)} rows")
