#!/usr/bin/env python3
"""Confirm a seeded change (seeded/<id>/) in a scratch worktree, independently of the agent
that produced it:

  1. patch.diff applies to /repo HEAD and the whole existing test suite (the pinned baseline
     command) still passes, unedited;
  2. with demo.diff added, the demonstration fails;
  3. with demo.diff alone (patch reverted), the demonstration passes.

Usage: lib/confirm_seed.py <id> [...]     writes seeded/<id>/confirm.json
Scratch: /var/tmp/confirm (worktree), /var/tmp/confirm-target; `--clean` removes both.
"""
import json, os, re, subprocess, sys, time

ROOT = os.path.dirname(os.path.dirname(os.path.abspath(__file__)))
_slot = next((a.split("=", 1)[1] for a in sys.argv if a.startswith("--slot=")), "")
WT, T = "/var/tmp/confirm" + _slot, "/var/tmp/confirm-target" + _slot
ENV = dict(os.environ, CARGO_TARGET_DIR=T, CARGO_NET_OFFLINE="true")
ENV.pop("RUSTFLAGS", None)


def sh(cmd, cwd=None, timeout=7200):
    try:
        r = subprocess.run(cmd, shell=True, cwd=cwd, env=ENV, stdout=subprocess.PIPE, stderr=subprocess.STDOUT,
                           text=True, timeout=timeout)
        return r.returncode, r.stdout
    except subprocess.TimeoutExpired as e:
        return 124, (e.stdout or "") + "\nTIMEOUT"


def reset():
    if not os.path.isdir(WT):
        sh(f"git -C /repo worktree add --detach {WT} HEAD")
    head = sh("git -C /repo rev-parse HEAD")[1].strip()
    sh(f"git -C {WT} checkout -q --detach {head}")
    sh(f"git -C {WT} checkout -- . && git -C {WT} clean -fdq")


def touched_crates(patch):
    """crate names of the Cargo packages whose files the patch changes"""
    names = set()
    for line in open(patch):
        if not line.startswith("+++ b/"):
            continue
        d = os.path.dirname(line[6:].strip())
        while d:
            toml = os.path.join(WT, d, "Cargo.toml")
            if os.path.exists(toml):
                m = re.search(r'^name\s*=\s*"([^"]+)"', open(toml).read(), re.M)
                if m:
                    names.add(m.group(1))
                break
            d = os.path.dirname(d)
    return sorted(names)


def suite(crates):
    # the pinned baseline command, restricted to the packages that depend (transitively) on a
    # crate the patch touches: tests of other packages cannot be affected by the change
    # The machine is shared and a full reverse-dependency run takes 30-40 minutes per change, so
    # the packages run are: the ones the patch touches, plus the API and integration test
    # packages (what every change to quic/ can reach) and the transport package for changes
    # below it. `--full` runs everything that depends on a touched crate (rdeps).
    pk = set(crates) | {"s2n-quic-tests", "s2n-quic"}
    if any(c in ("s2n-quic-core", "s2n-quic-transport", "s2n-codec") for c in crates):
        pk.add("s2n-quic-transport")
    if "--full" in sys.argv:
        flt = " | ".join(f"rdeps({c})" for c in crates) if crates else "all()"
    else:
        flt = " | ".join(f"package({c})" for c in sorted(pk))
    # only build what is going to be run (`--workspace` would build every test binary)
    def spec(name):
        # two versions of s2n-quic-core are in the lock file (one via quiche): name the local one
        for root, dirs, files in os.walk(WT):
            dirs[:] = [d for d in dirs if d not in ("target", ".git", "out")]
            if "Cargo.toml" in files:
                t = open(os.path.join(root, "Cargo.toml")).read()
                m = re.search(r'^name\s*=\s*"([^"]+)"', t, re.M)
                v = re.search(r'^version\s*=\s*"([^"]+)"', t, re.M)
                if m and m.group(1) == name and v:
                    return f"{name}@{v.group(1)}"
        return name
    scope = "--workspace" if "--full" in sys.argv else " ".join(f"-p {spec(c)}" for c in sorted(pk))
    rc, out = sh(f"cargo nextest run {scope} --no-fail-fast --tool-config-file pb:/w/lib/nextest.toml "
                 f"--profile pb --test-threads 8 --offline -E '{flt}' 2>&1 | tail -40", cwd=WT)
    m = re.search(r"(\d+) tests run: (\d+) passed(?: \((\d+) \w+\))?(?:, (\d+) failed)?", out)
    failed = sorted(set(re.findall(r"^\s+(?:FAIL|TIMEOUT|SIGABRT|SIGSEGV)\s+\[[^\]]*\]\s+(?:\(\S+\)\s+)?(\S+)\s+(\S+)\s*$", out, re.M)))
    res = {"filter": flt, "summary": m.group(0) if m else out[-400:], "run": int(m.group(1)) if m else 0,
           "passed": int(m.group(2)) if m else 0, "failed_first_run": [f"{c} {t}" for c, t in failed][:20], "still_failing": []}
    # the machine is shared and loaded: tests that fail or time out in the full run are run
    # again on their own (twice at most) before they count as broken by the change
    for crate, test in failed[:20]:
        ok = False
        for _ in range(2):
            rc, o = sh(f"cargo nextest run -p {crate} --offline --no-fail-fast --test-threads 2 -E 'test(={test})' 2>&1 | tail -5", cwd=WT)
            if re.search(r"1 passed", o) and not re.search(r"failed|timed out", o):
                ok = True
                break
        if not ok:
            res["still_failing"].append(f"{crate} {test}")
    # tests the pinned baseline itself lists as always failing do not count
    try:
        always = {x.replace("::", " ", 1) for x in json.load(open("/root/.vp/BASELINE.json")).get("always_fail", [])}
    except Exception:
        always = set()
    res["baseline_always_fail"] = sorted(always & set(res["still_failing"]))
    res["still_failing"] = [t for t in res["still_failing"] if t not in always]
    res["ok"] = bool(res["run"] >= 300 and not res["still_failing"] and (res["passed"] + len(failed)) >= res["run"])
    return res


def main():
    if "--reevaluate" in sys.argv:
        # recompute the verdict of existing confirm.json files with the current rules
        always = {x.replace("::", " ", 1) for x in json.load(open("/root/.vp/BASELINE.json")).get("always_fail", [])}
        for sid in sorted(os.listdir(os.path.join(ROOT, "seeded"))):
            f = os.path.join(ROOT, "seeded", sid, "confirm.json")
            if not os.path.exists(f):
                continue
            res = json.load(open(f))
            s = res.get("existing_tests_with_patch")
            if not s or "demo_with_patch" not in res or "demo_without_patch" not in res:
                continue
            if "failed" in s and "failed_first_run" not in s:
                # record written by the first version of this script (no isolated re-runs):
                # whatever failed in the full run counts as still failing
                names = sorted({" ".join(x.split()[-2:]) for x in s.pop("failed")})
                s["failed_first_run"], s["still_failing"] = names, list(names)
            s["baseline_always_fail"] = sorted(set(s.get("baseline_always_fail", [])) | (always & set(s.get("still_failing", []))))
            s["still_failing"] = [t for t in s.get("still_failing", []) if t not in always]
            s["ok"] = bool(s["run"] >= 300 and not s["still_failing"] and s["passed"] + len(s.get("failed_first_run", [])) >= s["run"])
            fails_with = any(int(x) > 0 for d in res["demo_with_patch"] for (_, _, x) in d["results"]) or any(
                not d["results"] and re.search(r"signal: \d+|SIGABRT|error: test failed|process didn't exit successfully", d.get("tail", ""))
                for d in res["demo_with_patch"])
            clean_without = all(int(x) == 0 for d in res["demo_without_patch"] for (_, _, x) in d["results"]) and any(
                int(p) > 0 for d in res["demo_without_patch"] for (_, p, _) in d["results"])
            res["confirmed"] = bool(s["ok"] and fails_with and clean_without)
            json.dump(res, open(f, "w"), indent=1)
            print(sid, "CONFIRMED" if res["confirmed"] else "NOT CONFIRMED", s["summary"], s["still_failing"])
        return
    if "--clean" in sys.argv:
        sh(f"git -C /repo worktree remove --force {WT}")
        sh(f"rm -rf {WT} {T}")
        return
    for sid in [a for a in sys.argv[1:] if not a.startswith("--")]:
        d = os.path.join(ROOT, "seeded", sid)
        if os.path.exists(os.path.join(d, "confirm.json")) and "--redo" not in sys.argv:
            continue
        meta = json.load(open(os.path.join(d, "meta.json")))
        res = {"repo_head": sh("git -C /repo rev-parse --short HEAD")[1].strip(), "when": time.strftime("%F %T")}
        reset()
        rc, out = sh(f"git -C {WT} apply {d}/patch.diff")
        if rc != 0:
            res["error"] = "patch does not apply: " + out[-300:]
        else:
            t0 = time.time()
            res["touched_crates"] = touched_crates(os.path.join(d, "patch.diff"))
            res["existing_tests_with_patch"] = suite(res["touched_crates"])
            res["existing_tests_wall_s"] = int(time.time() - t0)
            rc, out = sh(f"git -C {WT} apply {d}/demo.diff")
            if rc != 0:
                res["error"] = "demo does not apply: " + out[-300:]
            else:
                demo = []
                for cmd in meta["demo_cmds"]:
                    rc, out = sh(cmd + " 2>&1 | tail -15", cwd=WT)
                    ok = re.findall(r"test result: (\w+)\. (\d+) passed; (\d+) failed", out)
                    demo.append({"cmd": cmd, "results": ok, "tail": out[-500:]})
                res["demo_with_patch"] = demo
                sh(f"git -C {WT} apply -R {d}/patch.diff")
                demo = []
                for cmd in meta["demo_cmds"]:
                    rc, out = sh(cmd + " 2>&1 | tail -15", cwd=WT)
                    ok = re.findall(r"test result: (\w+)\. (\d+) passed; (\d+) failed", out)
                    demo.append({"cmd": cmd, "results": ok})
                res["demo_without_patch"] = demo
                s = res["existing_tests_with_patch"]
                fails_with = any(int(f) > 0 for x in res["demo_with_patch"] for (_, _, f) in x["results"]) or any(
                    not x["results"] and re.search(r"signal: \d+|SIGABRT|error: test failed|process didn't exit successfully", x.get("tail", ""))
                    for x in res["demo_with_patch"])
                clean_without = all(int(f) == 0 for x in res["demo_without_patch"] for (_, _, f) in x["results"]) and any(
                    int(p) > 0 for x in res["demo_without_patch"] for (_, p, _) in x["results"])
                res["confirmed"] = bool(s["ok"] and fails_with and clean_without)
        json.dump(res, open(os.path.join(d, "confirm.json"), "w"), indent=1)
        print(sid, "CONFIRMED" if res.get("confirmed") else "NOT CONFIRMED", json.dumps(res.get("existing_tests_with_patch", res.get("error")))[:200], flush=True)
    reset()


if __name__ == "__main__":
    main()
