#!/usr/bin/env python3
"""Confirm a seeded change (seeded/<id>/) in a scratch worktree, independently of the agent
that produced it:

  1. patch.diff applies to /repo HEAD and the whole existing test suite (the pinned baseline
     command) still passes, unedited;
  2. with demo.diff added, the demonstration fails;
  3. with demo.diff alone (patch reverted), the demonstration passes.

Usage: lib/confirm_seed.py <id> [...]     writes seeded/<id>/confirm.json
Scratch: /var/tmp/confirm (worktree), /var/tmp/confirm-target; `--clean` removes both.
"""
import json, os, re, subprocess, sys, time

ROOT = os.path.dirname(os.path.dirname(os.path.abspath(__file__)))
WT, T = "/var/tmp/confirm", "/var/tmp/confirm-target"
ENV = dict(os.environ, CARGO_TARGET_DIR=T, CARGO_NET_OFFLINE="true")
ENV.pop("RUSTFLAGS", None)


def sh(cmd, cwd=None, timeout=7200):
    try:
        r = subprocess.run(cmd, shell=True, cwd=cwd, env=ENV, stdout=subprocess.PIPE, stderr=subprocess.STDOUT,
                           text=True, timeout=timeout)
        return r.returncode, r.stdout
    except subprocess.TimeoutExpired as e:
        return 124, (e.stdout or "") + "\nTIMEOUT"


def reset():
    if not os.path.isdir(WT):
        sh(f"git -C /repo worktree add --detach {WT} HEAD")
    head = sh("git -C /repo rev-parse HEAD")[1].strip()
    sh(f"git -C {WT} checkout -q --detach {head}")
    sh(f"git -C {WT} checkout -- . && git -C {WT} clean -fdq")


def suite():
    rc, out = sh("cargo nextest run --workspace --no-fail-fast --tool-config-file pb:/w/lib/nextest.toml "
                 "--profile pb --test-threads 8 --offline 2>&1 | tail -40", cwd=WT)
    m = re.search(r"(\d+) tests run: (\d+) passed(?: \((\d+) \w+\))?(?:, (\d+) failed)?", out)
    failed = sorted(set(re.findall(r"^\s+(?:FAIL|TIMEOUT|SIGABRT|SIGSEGV)\s+\[[^\]]*\]\s+(?:\(\S+\)\s+)?(\S+)\s+(\S+)\s*$", out, re.M)))
    res = {"summary": m.group(0) if m else out[-400:], "run": int(m.group(1)) if m else 0,
           "passed": int(m.group(2)) if m else 0, "failed_first_run": [f"{c} {t}" for c, t in failed][:20], "still_failing": []}
    # the machine is shared and loaded: tests that fail or time out in the full run are run
    # again on their own (twice at most) before they count as broken by the change
    for crate, test in failed[:20]:
        ok = False
        for _ in range(2):
            rc, o = sh(f"cargo nextest run -p {crate} --offline --no-fail-fast --test-threads 2 -E 'test(={test})' 2>&1 | tail -5", cwd=WT)
            if re.search(r"1 passed", o) and not re.search(r"failed|timed out", o):
                ok = True
                break
        if not ok:
            res["still_failing"].append(f"{crate} {test}")
    res["ok"] = bool(res["run"] >= 1800 and not res["still_failing"] and (res["passed"] + len(failed)) >= res["run"])
    return res


def main():
    if "--clean" in sys.argv:
        sh(f"git -C /repo worktree remove --force {WT}")
        sh(f"rm -rf {WT} {T}")
        return
    for sid in [a for a in sys.argv[1:] if not a.startswith("--")]:
        d = os.path.join(ROOT, "seeded", sid)
        meta = json.load(open(os.path.join(d, "meta.json")))
        res = {"repo_head": sh("git -C /repo rev-parse --short HEAD")[1].strip(), "when": time.strftime("%F %T")}
        reset()
        rc, out = sh(f"git -C {WT} apply {d}/patch.diff")
        if rc != 0:
            res["error"] = "patch does not apply: " + out[-300:]
        else:
            t0 = time.time()
            res["existing_tests_with_patch"] = suite()
            res["existing_tests_wall_s"] = int(time.time() - t0)
            rc, out = sh(f"git -C {WT} apply {d}/demo.diff")
            if rc != 0:
                res["error"] = "demo does not apply: " + out[-300:]
            else:
                demo = []
                for cmd in meta["demo_cmds"]:
                    rc, out = sh(cmd + " 2>&1 | tail -15", cwd=WT)
                    ok = re.findall(r"test result: (\w+)\. (\d+) passed; (\d+) failed", out)
                    demo.append({"cmd": cmd, "results": ok, "tail": out[-500:]})
                res["demo_with_patch"] = demo
                sh(f"git -C {WT} apply -R {d}/patch.diff")
                demo = []
                for cmd in meta["demo_cmds"]:
                    rc, out = sh(cmd + " 2>&1 | tail -15", cwd=WT)
                    ok = re.findall(r"test result: (\w+)\. (\d+) passed; (\d+) failed", out)
                    demo.append({"cmd": cmd, "results": ok})
                res["demo_without_patch"] = demo
                s = res["existing_tests_with_patch"]
                fails_with = any(int(f) > 0 for x in res["demo_with_patch"] for (_, _, f) in x["results"])
                clean_without = all(int(f) == 0 for x in res["demo_without_patch"] for (_, _, f) in x["results"]) and any(
                    int(p) > 0 for x in res["demo_without_patch"] for (_, p, _) in x["results"])
                res["confirmed"] = bool(s["ok"] and fails_with and clean_without)
        json.dump(res, open(os.path.join(d, "confirm.json"), "w"), indent=1)
        print(sid, "CONFIRMED" if res.get("confirmed") else "NOT CONFIRMED", json.dumps(res.get("existing_tests_with_patch", res.get("error")))[:200], flush=True)
    reset()


if __name__ == "__main__":
    main()
