#!/usr/bin/env python3
"""Calibration mutants written by the harness author (see DESIGN.md section 6).

Each mutant is a small textual change to a scratch worktree of /repo (never /repo itself);
the harness copy under /var/tmp/mut-harness is built against that worktree and the relevant
vq-sim profile is run. Usage:  python3 lib/mutants.py [name ...]   (default: all)
Prints, per mutant, the violation signatures the monitors produced.
"""
import json, os, subprocess, sys, time

WT = "/var/tmp/mut"
H = "/var/tmp/mut-harness"
EXE = "/var/tmp/mut-target/debug/vq-sim"

# name, property, file (relative to worktree), old, new, profile, count
M = [
    ("c03-window-off-by-one", "C03", "quic/s2n-quic-transport/src/sync/data_sender/transmissions.rs",
     "        if window_len < interval_len as u64 {\n            interval.set_len(window_len as usize);",
     "        if window_len + 1 < interval_len as u64 {\n            interval.set_len(window_len as usize);", "C03", 200),
    ("c03-max-instead-of-min", "C03", "quic/s2n-quic-transport/src/stream/send_stream.rs",
     "        core::cmp::min(\n            self.max_stream_data,\n            self.acquired_connection_flow_controller_window,",
     "        core::cmp::max(\n            self.max_stream_data,\n            self.acquired_connection_flow_controller_window,", "C03", 200),
    ("c09-packet-threshold-2", "C09", "quic/s2n-quic-core/src/recovery/loss.rs",
     "pub const K_PACKET_THRESHOLD: u64 = 3;", "pub const K_PACKET_THRESHOLD: u64 = 2;", "C09", 200),
    ("c09-time-threshold-1", "C09", "quic/s2n-quic-core/src/recovery/rtt_estimator.rs",
     "        time_threshold += time_threshold / 8;", "        time_threshold += time_threshold / 800;", "C09", 200),
    ("c10-min-window-1mtu", "C10", "quic/s2n-quic-core/src/recovery/cubic.rs",
     "        2.0 * self.max_datagram_size as f32\n    }", "        1.0 * self.max_datagram_size as f32\n    }", "C10", 200),
    ("c11-multiplier-4", "C11", "quic/s2n-quic-core/src/connection/limits.rs",
     "pub const ANTI_AMPLIFICATION_MULTIPLIER: u8 = 3;", "pub const ANTI_AMPLIFICATION_MULTIPLIER: u8 = 4;", "C11", 300),
    ("c11-amplification-credit-other-address", "C11", "quic/s2n-quic-transport/src/path/mod.rs",
     "            return Ok(AmplificationOutcome::Unchanged);\n        }\n\n        let amplification_outcome",
     "        }\n\n        let amplification_outcome", "C11", 300),
    ("c06-skip-duplicate-check", "C06", "quic/s2n-quic-transport/src/space/application.rs",
     "        if self.is_duplicate(packet_number, path_id, path, publisher) {",
     "        if false && self.is_duplicate(packet_number, path_id, path, publisher) {", "C06", 120),
    ("c15-revert-keyset-fix", "C15", "quic/s2n-quic-core/src/crypto/application/keyset.rs",
     "                let generation = if packet_phase != self.key_phase() && !is_delayed_packet {",
     "                let generation = if packet_phase != self.key_phase() {", "C15", 48),
    ("c04-stop-sending-receive-only", "C04", "quic/s2n-quic-transport/src/stream/stream_impl.rs",
     "        if !self.has_send {\n            return Err(transport::Error::STREAM_STATE_ERROR\n                .with_reason(\"STOP_SENDING sent on receive-only stream\"));\n        }\n", "", "C04", 96),
    ("c14-ack-delay-exponent-21", "C14", "quic/s2n-quic-core/src/transport/parameters/mod.rs",
     "        decoder_invariant!(self.0 <= 20, \"ack_delay_exponent cannot be greater than 20\");",
     "        decoder_invariant!(self.0 <= 21, \"ack_delay_exponent cannot be greater than 20\");", "C14", 108),
    ("c09-pto-backoff-plus-one", "C09", "quic/s2n-quic-transport/src/recovery/manager.rs",
     "                    (context.active_path().pto_backoff * 2).min(max_pto_backoff);",
     "                    (context.active_path().pto_backoff + 1).min(max_pto_backoff);", "C09bh", 160),
    ("c03-reset-final-size-revert", "C03", "quic/s2n-quic-transport/src/stream/send_stream.rs",
     "        let requested_connection_window = core::cmp::min(end_offset, self.max_stream_data);",
     "        let requested_connection_window = end_offset;", "C03", 200),
]


def sh(cmd, **kw):
    return subprocess.run(cmd, shell=True, stdout=subprocess.PIPE, stderr=subprocess.STDOUT, text=True, **kw)


def run(m):
    name, prop, f, old, new, profile, count = m
    path = os.path.join(WT, f)
    sh(f"git -C {WT} checkout -- .")
    s = open(path).read()
    if s.count(old) != 1:
        return name, "PATTERN-NOT-FOUND(%d)" % s.count(old), {}
    open(path, "w").write(s.replace(old, new))
    t0 = time.time()
    b = sh(f"cd {H} && cargo build --offline -p vq-sim 2>&1 | tail -3")
    if "error" in b.stdout:
        sh(f"git -C {WT} checkout -- .")
        return name, "BUILD-FAILED " + b.stdout[-400:], {}
    procs = []
    per = max(1, count // 8)
    for i in range(8):
        procs.append(subprocess.Popen([EXE, "run", "--profile", profile, "--seed", "11", "--start", str(i * per), "--count", str(per)],
                                      stdout=subprocess.PIPE, stderr=subprocess.DEVNULL, text=True))
    sigs = {}
    for p in procs:
        out, _ = p.communicate()
        for line in out.splitlines():
            if line.startswith("SUMMARY "):
                d = json.loads(line[8:])
                for v in d.get("violations", []):
                    sigs[v["signature"]] = sigs.get(v["signature"], 0) + 1
                for x in d.get("inconclusive", []):
                    sigs["INCONCLUSIVE:" + x[:40]] = sigs.get("INCONCLUSIVE:" + x[:40], 0) + 1
    sh(f"git -C {WT} checkout -- .")
    return name, f"ran {count} scenarios of {profile} in {time.time()-t0:.0f}s", sigs


if __name__ == "__main__":
    want = sys.argv[1:]
    for m in M:
        if want and m[0] not in want:
            continue
        name, status, sigs = run(m)
        print(f"{name:42s} {status}  ->  {json.dumps(sigs) if sigs else 'NOT CAUGHT'}", flush=True)
