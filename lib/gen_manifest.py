#!/usr/bin/env python3
"""Regenerates /verif/MANIFEST.json from lib/registry.py + lib/manifest_meta.py"""
import json, os, sys
ROOT = os.path.dirname(os.path.dirname(os.path.abspath(__file__)))
sys.path.insert(0, os.path.join(ROOT, "lib"))
from registry import PROPS
from manifest_meta import META, NOT_YET, HOOK_COMMITS, ENGINES

all_ids = [json.loads(l)["id"] for l in open(os.path.join(ROOT, "properties.jsonl"))]
checks = []
for pid in all_ids:
    if pid not in PROPS:
        continue
    m = META[pid]
    c = {
        "property_id": pid,
        "quick_cmd": f"./check {pid} --tier quick",
        "thorough_cmd": f"./check {pid} --tier thorough",
        "evidence_file": f"/verif/evidence/{pid}.json",
        "replay_cmd_template": f"./check {pid} --replay {{path}}",
        "engine": m["engine"],
        "level_claimed": {"category": PROPS[pid].get("level", "exploration"), "text": m["text"], "design_ref": m["design_ref"]},
        "level_note": m["note"],
        "technique": m["technique"],
    }
    checks.append(c)
na = [{"property_id": pid, "reason": NOT_YET.get(pid, "no check registered yet")} for pid in all_ids if pid not in PROPS]
manifest = {
    "version": 1,
    "setup_cmd": "./check --setup",
    "hooks": {
        "guard": "aws_s2n_quic_verif",
        "enable": "RUSTFLAGS=\"--cfg aws_s2n_quic_verif\" (set for every harness build by /verif/harness/.cargo/config.toml; sanitizer builds pass it explicitly)",
        "baseline_off_cmd": "cd /repo && cargo nextest run --workspace --no-fail-fast --tool-config-file pb:/w/lib/nextest.toml --profile pb --test-threads 8 --offline",
        "source_commits": HOOK_COMMITS,
        "add_only": True,
    },
    "engines": ENGINES,
    "checks": checks,
    "not_applicable": na,
    "notes": "Runtime monitoring and sanitizers only. Exit codes of every check: 0 held on what was observed, 1 violation (VIOLATION line + replay file), 2 inconclusive (never on the unchanged tree). Known findings: /verif/known_findings.jsonl.",
}
json.dump(manifest, open(os.path.join(ROOT, "MANIFEST.json"), "w"), indent=1)
print("checks:", [c["property_id"] for c in checks], "not_applicable:", [n["property_id"] for n in na])
