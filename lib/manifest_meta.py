"""Per-property texts for MANIFEST.json (kept apart from the executable registry)."""

HOOK_COMMITS = ["5ed767e"]

ENGINES = [
    {"name": "vq-sim", "path": "harness/vq-sim", "serves_properties": ["C01", "C02", "C03", "C06", "C08", "C09", "C11", "C12"],
     "kind_free_text": "deterministic end-to-end simulation of real s2n-quic endpoints (bach executor, virtual clock) with five taps (network, cleartext TX/RX interceptor, event subscriber, congestion-controller proxy, application) feeding online property monitors"},
    {"name": "vq-c16", "path": "harness/vq-c16", "serves_properties": ["C16"],
     "kind_free_text": "component monitor: real buffer/set structures of s2n-quic-core against executable reference models after every operation; native, exhaustive short sequences, and under Miri"},
    {"name": "vq-wire", "path": "harness/vq-wire", "serves_properties": ["C05", "C08", "C14"],
     "kind_free_text": "independent RFC 9000 reference parser used as the other side of layout oracles and as the frame decoder of the taps"},
]

_SIM_NOTE = ("Trusted base: the bach/testing IO provider as the environment model, the packet-interceptor/event/congestion-controller provider "
             "interfaces as faithful observation points, the harness' reference parser vq-wire, s2n-tls + aws-lc for TLS. Says nothing about paths "
             "the seeded workloads do not drive; real sockets, GSO and XDP paths are not exercised.")

META = {
    "C01": {"engine": "vq-sim", "design_ref": "DESIGN.md section 4, C01",
            "technique": "runtime monitoring: online byte-exact oracle at the application boundary over seeded fault-injected simulations",
            "text": "Every chunk any receiving application is handed is compared byte-for-byte with a position-keyed PRF stream, and every clean end of stream with the sender's finish offset, over ~1000 (quick) / ~32000 (thorough) seeded executions of the real endpoints under loss, duplication, reordering, corruption, truncation, MTU drop, tiny windows and hostile application interleavings. Held-on-observed-executions; library debug assertions stay active and a panic counts as a violation.",
            "note": _SIM_NOTE},
    "C02": {"engine": "vq-sim", "design_ref": "DESIGN.md section 4, C02",
            "technique": "runtime monitoring: bounded-progress oracle in virtual time (application-future tracker, stall detector, failure-report deadline) over fault-injected simulations incl. an enumerated set of permanent blackhole points",
            "text": "Unbounded liveness is restated as bounded progress in virtual time and decided on observed executions: after a finite fault period every operation must succeed and every finished stream complete; after a permanent blackhole (enumerated after datagram #k per direction) both endpoints must report failure within max(idle, 3 PTO); no application future may be pending at the deadline and the deterministic executor must never stall. All five blocking kinds are observed in every run of the check.",
            "note": _SIM_NOTE},
    "C03": {"engine": "vq-sim", "design_ref": "DESIGN.md section 4, C03",
            "technique": "runtime monitoring: online limit oracle over cleartext TX/RX taps",
            "text": "Every STREAM and RESET_STREAM frame an endpoint encodes is checked against the largest stream, connection and stream-count limits its RX tap has shown it so far (transport parameters + MAX_* frames), in seeded executions biased to tiny/odd limits; hundreds of thousands of frames land exactly on a limit per run.",
            "note": _SIM_NOTE},
    "C06": {"engine": "vq-sim", "design_ref": "DESIGN.md section 4, C06",
            "technique": "runtime monitoring: adversarial network tap (forger/replayer) + authentication oracle joining the RX tap of one endpoint with the TX tap of its peer",
            "text": "Hundreds of thousands of forged, garbled, spliced and replayed datagrams are injected into established connections; every packet an endpoint authenticates must be byte-identical in cleartext to what its peer sent under that packet number and be processed at most once; ACK ranges and ECN counts must stay within the authenticated set; application bytes are checked by the C01 oracle in the same runs; with genuine traffic untouched nothing may fail.",
            "note": _SIM_NOTE},
    "C08": {"engine": "vq-sim", "design_ref": "DESIGN.md section 4, C08",
            "technique": "runtime monitoring: ACK-soundness / promptness / packet-number oracles over TX, RX, event and network taps",
            "text": "ACK ranges are checked against the set of packet numbers the RX tap fired for, packet numbers for strict increase, every truncated packet number for RFC A.3 expansion from the largest acknowledged value, genuine intact datagrams for never failing decryption, and acknowledgement latency against max_ack_delay with cause attribution (the pacer-held ACK is a recorded known finding).",
            "note": _SIM_NOTE},
    "C09": {"engine": "vq-sim", "design_ref": "DESIGN.md section 4, C09",
            "technique": "runtime monitoring: loss-declaration oracle over recovery events + conservation check at the congestion-controller interface",
            "text": "Every packet_lost event is justified against RFC 9002 6.1 from the monitor's own record of send times, acknowledged ranges and RTT metrics (1 ms timer granularity allowed); every sent packet resolves at most once; bytes_in_flight equals sent-acked-lost-discarded after every controller call; RTT estimates stay within the range of samples.",
            "note": _SIM_NOTE},
    "C11": {"engine": "vq-sim", "design_ref": "DESIGN.md section 4, C11",
            "technique": "runtime monitoring: byte-accounting oracle on the network tap (it is the network) + raw-socket probes",
            "text": "Per client address the tap counts bytes delivered to and emitted by the server until the server authenticates a Handshake packet (or a Retry token returns) and checks the 3x rule at the start of every server datagram; replies to 2000+ datagrams that belong to no connection are checked for size (stateless reset strictly smaller, observed margin 1 byte), kind (VN only for >= 1200 bytes, never to VN) and count; every client Initial datagram is checked for 1200-byte padding. Handshake drop positions are enumerated.",
            "note": _SIM_NOTE},
    "C16": {"engine": "vq-c16", "design_ref": "DESIGN.md section 4, C16",
            "technique": "runtime monitoring: reference-model comparison after every operation (random + exhaustive short sequences), plus the same workload under the Miri interpreter",
            "text": "The real reassembler, interval set, ACK ranges, packet-number map and sliding window are driven with boundary-biased random operation sequences and with every sequence of depth 3/4 over a slot-edge alphabet, and compared with independent byte-map / BTreeSet / BTreeMap models after each operation; Miri interprets a reduced workload so that uninitialised reads, invalid retags and out-of-bounds accesses in the unsafe slot code abort the run.",
            "note": "Trusted base: the harness' models (src/reasm.rs, sets.rs, pn.rs of vq-c16) and Miri. The slot size cannot be scaled down from outside the crate; partial-failure readers and conflicting bytes for one offset are not exercised."},
    "C12": {"engine": "vq-sim", "design_ref": "DESIGN.md section 4, C12",
            "technique": "runtime monitoring: per-stream self-consistency oracle over the cleartext TX tap + network tap for close behaviour",
            "text": "Per endpoint and stream, every STREAM frame's bytes are compared with what the application wrote at that offset (so retransmissions equal first transmissions), final sizes are tracked for change/overrun, frames after RESET_STREAM and after CONNECTION_CLOSE are flagged, close-datagram copies are counted against incoming datagrams, stream ids from open() must increase.",
            "note": _SIM_NOTE},
}

NOT_YET = {}

HOOK_COMMITS[:] = ["5ed767e", "c515dcc"]

ENGINES.extend([
    {"name": "vq-c05", "path": "harness/vq-c05", "serves_properties": ["C05", "C08", "C14"],
     "kind_free_text": "component monitor: real codecs (varint, frames, packet headers, packet numbers, transport parameters) against the reference parser vq-wire on random / grammar / mutated inputs; natively and under Miri"},
    {"name": "vq-interop", "path": "harness/vq-interop", "serves_properties": ["C07"],
     "kind_free_text": "s2n-quic <-> quiche/BoringSSL inside the deterministic simulator with quiche's clock interposed to virtual time; byte-exact oracle on both sides"},
])

META.update({
    "C04": {"engine": "vq-sim", "design_ref": "DESIGN.md section 4, C04",
            "technique": "runtime monitoring: attacker-mode packet interceptor (an honest peer whose cleartext is rewritten) + rejection / error-code / credit-bound oracles on the victim's taps",
            "text": "19 kinds of transport-rule violations and 2 at-the-limit controls are injected as cleartext frames by an otherwise honest peer, in both roles; the victim must close at once with the RFC-prescribed (or a generic) transport error on the event, the application error and the CONNECTION_CLOSE frame, hand none of the offending bytes to the application (C01 oracle) and never advertise more credit than consumed + window (checked on every MAX_* frame of every run). Whether a frame really is a violation is judged from the victim's own advertised limits.",
            "note": _SIM_NOTE},
    "C05": {"engine": "vq-c05", "design_ref": "DESIGN.md section 4, C05",
            "technique": "runtime monitoring: differential decoding against an independent RFC 9000 reference parser + round-trip / totality oracles; Miri on a reduced set",
            "text": "Millions of inputs per run (random, grammar-generated, boundary-biased, mutated, concatenated) go through the real decoders and through vq-wire; accept/reject, every field and the consumed length must agree, encoders must announce their exact size and emit shortest-form varints, decoders must never panic or stop making progress. Held on the inputs tried, not for all byte strings.",
            "note": "Trusted base: vq-wire (written from RFC 9000 16-19, RFC 9221) and the don't-care classification in harness/vq-c05/README.md. Coverage guidance is not used."},
    "C07": {"engine": "vq-interop", "design_ref": "DESIGN.md section 4, C07",
            "technique": "runtime monitoring: interoperability runs against quiche with a byte-exact two-sided oracle under fault injection",
            "text": "Both roles against quiche 0.29.3 over lossy / reordering networks and the configurable range of windows, stream limits and datagram sizes; handshake, stream bytes in both directions and clean stream ends are checked on both sides, any transport error is a violation. One recorded known finding (receive buffers sized by max_mtu while max_udp_payload_size is not advertised).",
            "note": "Trusted base: quiche/BoringSSL as the independent implementation, the clock_gettime interposition (self-tested), the simulator. One peer implementation, QUIC v1."},
    "C10": {"engine": "vq-sim", "design_ref": "DESIGN.md section 4, C10",
            "technique": "runtime monitoring: boundary recording of every congestion-controller call (proxy around the real CUBIC/BBR) with gating / floor / monotonicity oracles; component histories against a shadow model",
            "text": "Every call live connections make on the real controllers is recorded with window and bytes-in-flight before and after: sends must start below the window unless the packet is a PTO probe or a required fast retransmission, the window never drops below 2 (CUBIC) / 4 (BBR) datagrams, CUBIC never grows on loss or ECN. The component engine adds arbitrary legal histories with persistent congestion, MTU changes and discards.",
            "note": _SIM_NOTE},
    "C13": {"engine": "vq-sim", "design_ref": "DESIGN.md section 4, C13",
            "technique": "runtime monitoring: connection-id ledger over TX/RX taps joined with wire destination ids on the network tap",
            "text": "Every NEW_CONNECTION_ID / RETIRE_CONNECTION_ID frame is checked against a per-connection ledger (consecutive sequence numbers, distinct ids and reset tokens, retire_prior_to, active limit incl. the RFC's retire_prior_to allowance, retiring only issued ids, never on the id being retired) and every delivered genuine datagram's destination id against the connection that then processes it, with id expiry, handshake-id rotation, rebinding and targeted frame loss.",
            "note": _SIM_NOTE},
    "C14": {"engine": "vq-sim", "design_ref": "DESIGN.md section 4, C14",
            "technique": "runtime monitoring: RFC 18.2 table oracle on the real decoders + handshakes with rewritten parameter blocks (TLS-level wrapper) observed on events, wire and limit monitor",
            "text": "Decoders are compared with a table transcribed from RFC 9000 7.4/18.2 on seeded blocks (accept / reject / don't care, decoded values, defaults); live handshakes with 27 kinds of rewritten blocks check that invalid ones fail with TRANSPORT_PARAMETER_ERROR on event and wire and that valid ones are accepted and applied (sender held to the declared limits by the C03 oracle). Two recorded known findings (non-minimal ack_delay_exponent, short retry_source_connection_id).",
            "note": _SIM_NOTE},
    "C15": {"engine": "vq-sim", "design_ref": "DESIGN.md section 4, C15",
            "technique": "runtime monitoring: live key updates forced by hook H1 with generation-consistency, decryptability and data-integrity oracles; component key-set model",
            "text": "Live connections rotate their 1-RTT keys every 500-1550 packets under loss, duplication and reordering; the two ends' generations must advance by one and never differ by more than one, genuine intact datagrams must decrypt, data must stay intact, no crypto close. The component engine drives two KeySets with tiny limits through a hostile channel and checks the limits and generation order after every step.",
            "note": _SIM_NOTE + " Production AEAD limits are never reached; header-protected key-phase bits are not visible on the wire, generations are taken from key_update events."},
})


ENGINES.append({"name": "vq-cc", "path": "harness/vq-cc", "serves_properties": ["C09", "C10", "C15"],
                "kind_free_text": "component monitors: CUBIC/BBR through the CongestionController trait against a shadow of outstanding packets; RttEstimator/Pto against an RFC 9002 transcription; two KeySets with an instrumented key joined by a hostile channel; natively and under Miri"})


ENGINES.extend([
    {"name": "vq-sync", "path": "harness/vq-sync", "serves_properties": ["C17"],
     "kind_free_text": "bounded multi-threaded scenarios over s2n_quic_core::sync (spsc, worker, cursor, atomic_waker) with a history monitor, one scenario+seed per process, natively with failpoints (hook H3) and under Miri, ThreadSanitizer and AddressSanitizer"},
    {"name": "vq-dc", "path": "harness/vq-dc", "serves_properties": ["C18", "C19", "C20"],
     "kind_free_text": "s2n-quic-dc monitors: packet round trip / tamper rejection at codec, path-secret map and data path (real aws-lc keys); replay window and key-id issue against a model incl. concurrent callers; dc streams in the bach simulator with a seeded faulty network and over loopback TCP with a PRF byte oracle"},
])

META.update({
    "C17": {"engine": "vq-sync", "design_ref": "DESIGN.md section 4, C17",
            "technique": "runtime monitoring + sanitizers: history monitor (exactly-once / in-order / bounded wake-up) over sampled thread interleavings; Miri (data races, weak memory, borrows, deadlock), ThreadSanitizer and AddressSanitizer on the same scenarios",
            "text": "26 bounded scenarios (capacity 2, a few batches, close/drop of either side at every point, cloned handles) are executed tens of thousands of times per run on real threads with failpoints between the publication points (hook H3), and a few hundred times under Miri, where every seed is another preemption schedule and weak-memory outcome; thorough adds TSan and ASan builds. The monitor's ledger decides delivery/order/wake-up, the tools decide races and memory errors. Interleavings are sampled, never enumerated: the verdict is 'held on the N distinct interleavings observed'.",
            "note": "Trusted base: the harness' thread-parking executor (all its shared state is Relaxed atomics, so it adds no happens-before edge), Miri's C11 emulation, the sanitizer runtimes. wakeup_queue is not covered."},
    "C18": {"engine": "vq-dc", "design_ref": "DESIGN.md section 4, C18",
            "technique": "runtime monitoring: round-trip and tamper-rejection oracles at three boundaries (codec+crypto, path-secret map as victim with state snapshot before/after, map-keyed data path), genuine packet as positive control",
            "text": "Tens of thousands of genuine packets of all eight kinds per run, millions of single- and multi-byte mutants, truncations, splices and random strings; no mutant may open or change map entries, key ids, handshake requests or emit acceptance events, the genuine packet must.",
            "note": "Trusted base: aws-lc, the harness' known-secret insertion through the public dc::Endpoint / dc::Path API. Two protocol-level known findings (UnknownPathSecret queue id, recovery bit of retransmissions) are listed in known_findings.jsonl."},
    "C19": {"engine": "vq-dc", "design_ref": "DESIGN.md section 4, C19",
            "technique": "runtime monitoring: reference-model comparison of the replay window per key id, at-most-once / must-accept oracles over concurrent receivers, pairwise-distinct and StaleKey-floor oracles over concurrent sealers (also under ThreadSanitizer)",
            "text": "Millions of key ids per run against the model (window edges 893-898, huge jumps, maximum id), thousands of concurrent receiver and sealer rounds on 2-8 threads with genuine StaleKey packets arriving.",
            "note": "Trusted base: the model in vq-dc/src/c19.rs. Thread interleavings are sampled. Miri gives no signal here (aliasing report inside third-party bitvec 1.1.1 on the first window shift)."},
    "C20": {"engine": "vq-dc", "design_ref": "DESIGN.md section 4, C20",
            "technique": "runtime monitoring: position-keyed PRF byte oracle at both applications + bounded-failure deadline in virtual time over a seeded faulty network (incl. per-packet fault enumeration) and loopback TCP",
            "text": "Hundreds of stream scenarios per run (loss 0.1-30 %, bursts, k-th packet drops enumerated, duplication, reordering, MTU 1250-8940, vanished/mute/forgetful peers, arbitrary read/write/shutdown/drop orders); reads are checked at their absolute position, clean EOF only at the written length, failures must surface within the idle timeout.",
            "note": "Trusted base: bach's network model with the harness' fault queue, the crate's testing Client/Server. Delivery itself is not claimed by C20: streams that error out with a live peer are counted, not flagged."},
})
