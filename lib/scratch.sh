#!/bin/bash
# Scratch copy of /repo + harness for running the monitors against a *changed* tree without
# touching /repo (calibration mutants, seeded changes).
#   lib/scratch.sh sync          (re)create /var/tmp/mut (git worktree of /repo HEAD, clean),
#                                /var/tmp/mut-harness (copy of /verif/harness pointing there)
#   lib/scratch.sh apply <diff>  reset the worktree and apply a patch
#   lib/scratch.sh build [pkg]   build harness package(s) against the scratch tree
#   lib/scratch.sh clean         remove everything again (worktree, harness copy, target)
set -e
WT=/var/tmp/mut
H=/var/tmp/mut-harness
T=/var/tmp/mut-target
case "$1" in
sync)
    if [ ! -d $WT ]; then git -C /repo worktree add --detach $WT HEAD >/dev/null; fi
    git -C $WT checkout -q --detach "$(git -C /repo rev-parse HEAD)"
    git -C $WT checkout -- . && git -C $WT clean -fdq
    mkdir -p $H
    rsync -a --delete --exclude target /verif/harness/ $H/
    grep -rl '"/repo/' $H --include=Cargo.toml | xargs sed -i 's|"/repo/|"/var/tmp/mut/|g'
    sed -i "s|^target-dir = .*|target-dir = \"$T\"|" $H/.cargo/config.toml
    ;;
apply)
    git -C $WT checkout -- . && git -C $WT clean -fdq
    git -C $WT apply "$2"
    ;;
build)
    shift
    pk=""
    for p in "${@:-vq-sim}"; do pk="$pk -p $p"; done
    (cd $H && cargo build --offline $pk 2>&1 | grep -E "^error|warning: unused|Finished" -A 5 | tail -20)
    ;;
clean)
    git -C /repo worktree remove --force $WT 2>/dev/null || rm -rf $WT
    rm -rf $H $T
    ;;
*)
    echo "usage: $0 sync|apply <diff>|build [pkg..]|clean"
    exit 2
    ;;
esac
