#!/usr/bin/env python3
"""Run the monitors against seeded changes kept under /verif/seeded/<id>/ (DESIGN.md 9.5).

A seeded change is a patch to aws/s2n-quic that breaks one property while compiling and
passing the existing tests; it was produced by a sub-agent that saw nothing of /verif.
The patch is applied to a scratch worktree (/var/tmp/mut, never /repo), the harness copy is
built against it and the jobs named in meta.json["detect"] are run:

    {"pkg": "vq-sim", "profile": "C01", "count": 320, "seed": 11}
    {"pkg": "vq-c05", "args": ["--check", "codec", "--seed", "3", "--count", "20000"]}

Usage:  lib/seeded.py [--keep] <id> [...]        (ids = directory names under seeded/)
Prints per change the violation signatures seen; writes seeded/<id>/result.json.
"""
import json, os, subprocess, sys, time

ROOT = os.path.dirname(os.path.dirname(os.path.abspath(__file__)))
WT, H, T = "/var/tmp/mut", "/var/tmp/mut-harness", "/var/tmp/mut-target"
SH = os.path.join(ROOT, "lib", "scratch.sh")


def sh(cmd):
    return subprocess.run(cmd, shell=True, stdout=subprocess.PIPE, stderr=subprocess.STDOUT, text=True)


def summaries(procs):
    sigs, inconc, evals = {}, {}, 0
    import re
    for p in procs:
        out, err = p.communicate()
        if "SUMMARY " not in out and p.returncode is not None and p.returncode < 0:
            # the same rule as the driver (check: crash_report): a library panic that aborts
            # the process, or a memory fault, is a violation
            m = re.search(r"panicked at (/repo/|/var/tmp/mut/)([\w/\-\.]+\.rs):\d+", err or "")
            if p.returncode == -6 and m:
                k = "?:abort:panic@" + m.group(2)
                sigs[k] = sigs.get(k, 0) + 1
            elif p.returncode in (-11, -7, -4):
                k = f"?:crash:signal{-p.returncode}"
                sigs[k] = sigs.get(k, 0) + 1
            else:
                inconc[f"died with {p.returncode}"] = inconc.get(f"died with {p.returncode}", 0) + 1
        for line in out.splitlines():
            if not line.startswith("SUMMARY "):
                continue
            d = json.loads(line[8:])
            evals += d.get("evaluations", 0)
            for v in d.get("violations", []):
                k = f'{v.get("property", "")}:{v["signature"]}'
                sigs[k] = sigs.get(k, 0) + 1
            for x in d.get("inconclusive", []):
                inconc[x[:60]] = inconc.get(x[:60], 0) + 1
    return sigs, inconc, evals


def run_job(job):
    exe = os.path.join(T, "debug", job["pkg"])
    procs = []
    if job["pkg"] == "vq-sim":
        count, n = job.get("count", 160), 8
        per = max(1, count // n)
        for i in range(n):
            argv = [exe, "run", "--profile", job["profile"], "--seed", str(job.get("seed", 11)),
                    "--start", str(job.get("start", 0) + i * per), "--count", str(per)]
            procs.append(subprocess.Popen(argv, stdout=subprocess.PIPE, stderr=subprocess.PIPE, text=True))
    elif job.get("runner"):
        # vq-sync's own multi-process runner (one scenario+seed per process), from the scratch copy
        tool = job["runner"]
        argv = ["python3", os.path.join(H, "vq-sync", "run_sanitized.py"), "--tool", tool, "--seeds", f"11000..{11000 + job.get('seeds', 16)}",
                "--scenarios", "all", "--jobs", "12", "--target-dir", T if tool == "native" else f"{T}-{tool}"] + job.get("extra", [])
        procs.append(subprocess.Popen(argv, stdout=subprocess.PIPE, stderr=subprocess.PIPE, text=True))
    else:
        # "shards": N runs the job like a registered tier does: N processes, seed*1000+i
        for i in range(job.get("shards", 1)):
            a = list(job["args"])
            if "shards" in job:
                k = a.index("--seed") + 1
                a[k] = str(int(a[k]) * 1000 + i)
            procs.append(subprocess.Popen([exe] + a, stdout=subprocess.PIPE, stderr=subprocess.PIPE, text=True))
    return summaries(procs)


def main():
    ids = [a for a in sys.argv[1:] if not a.startswith("--")]
    sh(f"{SH} sync")
    for sid in ids:
        d = os.path.join(ROOT, "seeded", sid)
        meta = json.load(open(os.path.join(d, "meta.json")))
        r = sh(f"{SH} apply {d}/patch.diff")
        if r.returncode != 0:
            print(f"{sid}: PATCH DOES NOT APPLY: {r.stdout[-300:]}")
            continue
        pkgs = sorted({j["pkg"] for j in meta["detect"]})
        t0 = time.time()
        b = sh(f"{SH} build {' '.join(pkgs)}")
        if "error" in b.stdout:
            print(f"{sid}: BUILD FAILED\n{b.stdout[-600:]}")
            continue
        res = []
        for j in meta["detect"]:
            sigs, inconc, evals = run_job(j)
            res.append({"job": j, "evaluations": evals, "signatures": sigs, "inconclusive": inconc})
        # signatures listed as known findings do not make a check fail: they do not count
        known = set()
        for line in open(os.path.join(ROOT, "known_findings.jsonl")):
            f = json.loads(line)
            if f.get("status") == "known":
                known.add(f'{f["property"]}:{f["signature"]}')
        for r in res:
            r["known_finding_signatures"] = {k: v for k, v in r["signatures"].items() if k in known}
            r["signatures"] = {k: v for k, v in r["signatures"].items() if k not in known}
        caught = any(r["signatures"] for r in res)
        json.dump({"caught": caught, "runs": res, "repo_head": sh("git -C /repo rev-parse --short HEAD").stdout.strip()},
                  open(os.path.join(d, "result.json"), "w"), indent=1)
        print(f"{sid:12s} {meta['property']}  {'CAUGHT' if caught else 'NOT CAUGHT'}  ({time.time()-t0:.0f}s)")
        for r in res:
            print(f"      {json.dumps(r['job'])}: evals={r['evaluations']} {json.dumps(r['signatures'])}"
                  + (f" inconclusive={json.dumps(r['inconclusive'])}" if r["inconclusive"] else ""), flush=True)
    sh(f"git -C {WT} checkout -- . && git -C {WT} clean -fdq")


if __name__ == "__main__":
    main()
