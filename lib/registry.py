"""Which engine runs what for each property (read by /verif/check)."""
import os

ROOT = os.path.dirname(os.path.dirname(os.path.abspath(__file__)))
TARGET = os.path.join(ROOT, "target")


def _split(total, n):
    """split `total` items into at most n contiguous (start, count) shards"""
    n = max(1, min(n, total))
    base, rem = divmod(total, n)
    out, start = [], 0
    for i in range(n):
        c = base + (1 if i < rem else 0)
        if c:
            out.append((start, c))
        start += c
    return out


def sim_job(profile, count, name=None, budget_ms=None):
    """vq-sim: `count` seeded scenarios of a profile, sharded over the cores"""
    exe = os.path.join(TARGET, "debug", "vq-sim")

    def shards(seed, nproc):
        out = []
        for start, c in _split(count, nproc):
            argv = [exe, "run", "--profile", profile, "--seed", str(seed), "--start", str(start), "--count", str(c)]
            if budget_ms:
                argv += ["--budget-ms", str(budget_ms)]
            out.append(argv)
        return out

    def replay(rep, path):
        return [exe, "replay", "--profile", rep.get("profile", profile), "--scenario-seed", str(rep["scenario_seed"]),
                "--index", str(rep.get("index", 0)), "--verbose"]

    return {
        "name": name or f"vq-sim:{profile}x{count}",
        "engine": "vq-sim",
        "build": {"kind": "native", "packages": ["vq-sim"]},
        "shards": shards,
        "replay": replay,
    }


def bin_job(pkg, args_fn, name, timeout=None, replay=None, engine=None):
    """a native harness binary; args_fn(seed, nproc) -> list of argument lists (one per shard)"""
    exe = os.path.join(TARGET, "debug", pkg)
    job = {
        "name": name,
        "engine": engine or pkg,
        "build": {"kind": "native", "packages": [pkg]},
        "shards": lambda seed, nproc: [[exe] + [str(x) for x in a] for a in args_fn(seed, nproc)],
    }
    if timeout:
        job["timeout"] = timeout
    if replay:
        job["replay"] = lambda rep, path: [exe] + replay(rep, path)
    return job


MIRI_ENV = {
    "CARGO_TARGET_DIR": os.path.join(ROOT, "target-miri"),
    "MIRIFLAGS": "-Zmiri-disable-isolation",
}


def miri_job(pkg, args_fn, name, warm_args, timeout=None):
    """the same binary interpreted by Miri (UB / data-race / borrow reports abort the process)"""
    base = ["cargo", "+nightly", "miri", "run", "-q", "--offline", "-p", pkg, "--"]
    job = {
        "name": name,
        "engine": pkg,
        "sanitizer": "miri",
        "env": MIRI_ENV,
        "build": {"kind": "cmd", "cmd": base + [str(x) for x in warm_args], "env": MIRI_ENV},
        "shards": lambda seed, nproc: [base + [str(x) for x in a] for a in args_fn(seed, nproc)],
    }
    if timeout:
        job["timeout"] = timeout
    return job


SIM_ASSUME = [
    "the deterministic IO provider (bach executor, virtual clock) of s2n-quic-platform stands in for real sockets and timers",
    "cleartext frames are observed through the unstable packet-interceptor provider and parsed by the independent reference parser vq-wire",
    "TLS is the default s2n-tls provider with the repository's test certificates",
]

PROPS = {
    "C01": {
        "level": "exploration",
        "rule": "each evaluation is one seeded end-to-end simulation (1-3 clients, 1-8 streams per connection, both initiators, "
                "sizes/chunkings/read modes/windows/MTU/controller drawn from the seed, per-direction fault phases: loss, "
                "duplication, reordering, corruption, truncation, MTU drop). Non-trivial = the execution exercised at least one of "
                "loss, reordering, duplication, corruption, flow-control blocking, retransmission, application reset; distinct = "
                "hash of the discretised configuration x the set of mechanisms observed.",
        "assumptions": SIM_ASSUME + ["payload is a position-keyed PRF stream per (connection, stream, direction)"],
        "tiers": {"quick": [sim_job("C01", 960)], "thorough": [sim_job("C01", 32000)]},
        "min_quick": {"evaluations": 900, "c01.bytes_compared": 50_000_000, "c01.streams_completed": 2000},
        "min_thorough": {"evaluations": 30000, "c01.bytes_compared": 1_000_000_000},
    },
    "C02": {
        "level": "exploration",
        "rule": "two workloads. (1) must-deliver: seeded simulations whose fault period (loss, bursts, blackhole windows, duplication, "
                "corruption, reordering, targeted drops of MAX_* / *_BLOCKED / HANDSHAKE_DONE datagrams, dropped handshake datagrams) is finite "
                "(<= 5 s) with idle/handshake timeouts >= 4x that period + 2 s, benign applications, tiny windows forcing every blocking kind: "
                "no operation may fail, every finished stream must complete, nothing may be pending at the virtual deadline, the simulator must "
                "not stall. (2) never-recovers: an enumerated finite fault set - permanent blackhole after datagram #k (k = 0..39) of the "
                "client->server, server->client or both directions, plus time-based blackholes - where every endpoint must report the failure "
                "within max(idle, 3 PTO) of the last possible idle-timer restart (max_handshake_duration before the handshake completes). "
                "Non-trivial = blocking / loss / drops occurred; distinct = hash of configuration x mechanisms observed.",
        "assumptions": SIM_ASSUME + ["liveness is restated as bounded progress in virtual time (T_max 900 s / 300 s)",
                                     "Retry is off in must-deliver runs: expired Retry tokens (1-2 s lifetime) are dropped silently, which RFC 9000 8.1.2 permits"],
        "tiers": {"quick": [sim_job("C02", 640), sim_job("C02bh", 160)], "thorough": [sim_job("C02", 16000), sim_job("C02bh", 3200)]},
        "min_quick": {"evaluations": 760, "c02.must_deliver_runs": 600, "c02.never_recovers_runs": 150, "c02.failure_reports_timed": 150,
                      "c02.runs_blocked_on.stream-credit": 200, "c02.runs_blocked_on.connection-credit": 150,
                      "c02.runs_blocked_on.stream-count": 100, "c02.runs_blocked_on.congestion": 200, "c02.flows_completed": 5000},
        "min_thorough": {"evaluations": 18000, "c02.must_deliver_runs": 15000, "c02.never_recovers_runs": 3000},
    },
    "C03": {
        "level": "exploration",
        "rule": "each evaluation is one seeded end-to-end simulation biased to tiny and odd limits (1, 2, 1000, 2^14+-1 byte windows; "
                "1-6 stream-count limits with up to 12 opens) with lossy/reordering networks and application resets. Non-trivial = a "
                "STREAM frame landed exactly on a stream/connection/stream-count limit or the sender was blocked on one; distinct = "
                "hash of configuration x mechanisms observed.",
        "assumptions": SIM_ASSUME + ["initial_max_data of the peer is taken from the configuration the harness gave it (the event omits it)"],
        "tiers": {"quick": [sim_job("C03", 960)], "thorough": [sim_job("C03", 32000)]},
        "min_quick": {"evaluations": 900, "c03.frames_checked": 500_000, "c03.tight_stream_limit": 10_000, "c03.resets_checked": 1000},
        "min_thorough": {"evaluations": 30000, "c03.frames_checked": 10_000_000},
    },
    "C06": {
        "level": "exploration",
        "rule": "each evaluation is one seeded end-to-end simulation in which an attacker inside the network injects, once every connection is "
                "established, 100-600 datagrams between the genuine ones: random bytes behind a live header+connection id, copies with 1-8 "
                "flipped bits, truncated / extended / spliced copies, copies carrying another flow's connection id, exact replays (at once, "
                "delayed up to 2 s, one victim replayed 50-300 times). Two thirds of the scenarios leave genuine traffic untouched (then "
                "nothing at all may fail), one third is lossy/reordering as well. Non-trivial = datagrams were injected; distinct = hash of "
                "configuration x mechanisms observed.",
        "assumptions": SIM_ASSUME + ["one cipher suite (the one the default TLS provider negotiates); constant-time behaviour is not observable",
                                     "forgeries target 1-RTT (short header) packets of established connections"],
        "tiers": {"quick": [sim_job("C06", 640)], "thorough": [sim_job("C06", 16000)]},
        "min_quick": {"evaluations": 600, "c06.injected_datagrams": 200_000, "c06.rejected_by_authentication": 40_000,
                      "c06.replays_suppressed": 80_000, "c06.pure_injection_runs": 350, "c06.authenticated_packets": 300_000},
        "min_thorough": {"evaluations": 15000, "c06.injected_datagrams": 5_000_000},
    },
    "C08": {
        "level": "exploration",
        "rule": "each evaluation is one seeded end-to-end simulation on a lossy, reordering, duplicating (not corrupting) network. "
                "Non-trivial = loss, reordering, gaps, duplicates or ACK-range eviction occurred; distinct = hash of configuration x "
                "mechanisms observed. Oracles: ACK ranges subset of RX-tap set; pn strictly increasing; ack latency vs max_ack_delay "
                "with cause attribution; truncated pn expands from the largest acknowledged; genuine intact datagrams never fail decryption.",
        "assumptions": SIM_ASSUME + ["packet-number length is derived from datagram size for single short-header packet datagrams"],
        "tiers": {"quick": [sim_job("C08", 960)], "thorough": [sim_job("C08", 32000)]},
        "min_quick": {"evaluations": 900, "c08.ack_ranges": 1_000_000, "c08.acks_timed": 500_000, "c08.truncations_checked": 500_000},
        "min_thorough": {"evaluations": 30000, "c08.ack_ranges": 20_000_000},
    },
    "C09": {
        "level": "exploration",
        "rule": "each evaluation is one seeded end-to-end simulation with loss/reordering/duplication of data and ACK datagrams, half of them "
                "with path RTT >= 40 ms. Non-trivial = loss declarations, PTO probes or space discards with packets outstanding occurred; "
                "distinct = hash of configuration x mechanisms observed.",
        "assumptions": SIM_ASSUME + ["RTT values used by a loss decision are those of the recovery_metrics event preceding or following it; timers may fire 1 ms early (kGranularity)"],
        "tiers": {"quick": [sim_job("C09", 960)], "thorough": [sim_job("C09", 32000)]},
        "min_quick": {"evaluations": 900, "c09.loss_declarations": 100_000, "c09.cc_calls_checked": 2_000_000},
        "min_thorough": {"evaluations": 30000, "c09.loss_declarations": 3_000_000},
    },
    "C11": {
        "level": "exploration",
        "rule": "handshake-centred seeded simulations, three kinds by scenario index: (0) enumerated single and double drops of handshake "
                "datagram positions 0..11 in either direction (finite fault set, covered once per 3*2*12*13*2 indices), (1) random loss / "
                "duplication / far reordering during the first seconds with client address rebinding mid-handshake, (2) 4-24 datagrams that "
                "belong to no connection (garbage, short header + unknown CID, unknown version, Version Negotiation, undersized Initials; "
                "sizes 1..1500) fired from raw sockets. Non-trivial = drops/duplicates/Retry/rebinding occurred or the server came within "
                "one datagram of the 3x limit; distinct = hash of configuration x mechanisms observed.",
        "assumptions": SIM_ASSUME + ["the tap counts every datagram delivered to the server's socket as received (>= what the server credits: lenient)",
                                     "stateless resets are enabled with a deterministic token generator (the default provider keeps them off)"],
        "tiers": {"quick": [sim_job("C11", 960)], "thorough": [sim_job("C11", 24000)]},
        "min_quick": {"evaluations": 900, "c11.unvalidated_datagrams_checked": 2500, "c11.probes_delivered": 3000,
                      "c11.probe_reply.stateless-reset-like": 500, "c11.client_initial_datagrams": 4000, "c11.runs_server_at_limit": 20},
        "min_thorough": {"evaluations": 23000, "c11.unvalidated_datagrams_checked": 60000},
    },
    "C16": {
        "level": "exploration",
        "rule": "each evaluation is one operation sequence run against the real Reassembler / IntervalSet<u8|u64|PacketNumber> / "
                "ack::Ranges / packet::number::Map / SlidingWindow and an independent executable model (byte map, BTreeSet, BTreeMap, "
                "window rule), compared after EVERY operation (return value, error class, every observable incl. a full content "
                "snapshot, bytes = position-keyed PRF). Random sequences are boundary-biased (slot edge 4096, allocation edges "
                "65536 / 262144 / 1 MiB, 2^62-n, window edges 127/128/129); the exhaustive job enumerates ALL sequences of depth 3 "
                "(quick) / 4 (thorough) over a 40-symbol alphabet placed on the real 4096-byte slot edge; the Miri jobs interpret a "
                "small workload (UB, uninitialised reads, invalid retags abort the process and are violations). Non-trivial = the "
                "sequence hit at least one non-boring class (overlap classes, slot/allocation edges, rejections, evictions ...); "
                "distinct = hash of (structure, set of classes hit).",
        "assumptions": ["the slot size of the reassembler is a private constant, so the exhaustive alphabet sits on the real 4096-byte edge",
                        "Miri interprets the harness as well: its workloads are small (about 150 operations per process)"],
        "tiers": {
            "quick": [
                bin_job("vq-c16", lambda seed, n: [["--mode", "random", "--seed", seed * 1000 + i, "--iters", 5000] for i in range(n)],
                        "vq-c16:random 16x5000", replay=lambda rep, path: ["--replay", path]),
                bin_job("vq-c16", lambda seed, n: [["--mode", "exhaustive", "--depth", 3, "--alphabet", "small"]], "vq-c16:exhaustive depth 3"),
                miri_job("vq-c16", lambda seed, n: [["--mode", "miri", "--seed", seed * 100 + i, "--iters", 120] for i in range(4)],
                         "vq-c16:miri 4x120 ops", ["--mode", "miri", "--seed", 0, "--iters", 2], timeout=1200),
            ],
            "thorough": [
                bin_job("vq-c16", lambda seed, n: [["--mode", "random", "--seed", seed * 1000 + i, "--iters", 400000] for i in range(n)],
                        "vq-c16:random 16x400000", replay=lambda rep, path: ["--replay", path]),
                bin_job("vq-c16", lambda seed, n: [["--mode", "exhaustive", "--depth", 4, "--alphabet", "small", "--start", i * 160000, "--iters", 160000]
                                                   for i in range(16)], "vq-c16:exhaustive depth 4 (2.56M sequences)"),
                bin_job("vq-c16", lambda seed, n: [["--mode", "exhaustive", "--depth", 3, "--alphabet", "full"]], "vq-c16:exhaustive depth 3 full alphabet"),
                miri_job("vq-c16", lambda seed, n: [["--mode", "miri", "--seed", seed * 100 + i, "--iters", 400] for i in range(16)],
                         "vq-c16:miri 16x400 ops", ["--mode", "miri", "--seed", 0, "--iters", 2], timeout=3600),
            ],
        },
        "min_quick": {"evaluations": 100_000, "ops": 1_500_000, "bytes_compared": 500_000_000, "edge.across_slot": 50_000},
        "min_thorough": {"evaluations": 8_000_000},
    },
    "C12": {
        "level": "exploration",
        "rule": "each evaluation is one seeded end-to-end simulation with hostile applications (reset, stop_sending, abrupt close with data in "
                "flight) over lossy networks. Non-trivial = retransmission (also in a different segmentation), RESET_STREAM or CONNECTION_CLOSE "
                "was sent; distinct = hash of configuration x mechanisms observed.",
        "assumptions": SIM_ASSUME,
        "tiers": {"quick": [sim_job("C12", 960)], "thorough": [sim_job("C12", 32000)]},
        "min_quick": {"evaluations": 900, "c12.stream_frames": 500_000, "c12.retransmitted_bytes": 10_000_000, "c12.resets": 1000, "c12.close_episodes": 500},
        "min_thorough": {"evaluations": 30000, "c12.stream_frames": 10_000_000},
    },
}
