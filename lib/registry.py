"""Which engine runs what for each property (read by /verif/check)."""
import os

ROOT = os.path.dirname(os.path.dirname(os.path.abspath(__file__)))
TARGET = os.path.join(ROOT, "target")
HARNESS = os.path.join(ROOT, "harness")


def _split(total, n):
    """split `total` items into at most n contiguous (start, count) shards"""
    n = max(1, min(n, total))
    base, rem = divmod(total, n)
    out, start = [], 0
    for i in range(n):
        c = base + (1 if i < rem else 0)
        if c:
            out.append((start, c))
        start += c
    return out


def sim_job(profile, count, name=None, budget_ms=None):
    """vq-sim: `count` seeded scenarios of a profile, sharded over the cores"""
    exe = os.path.join(TARGET, "debug", "vq-sim")

    def shards(seed, nproc):
        out = []
        for start, c in _split(count, nproc):
            argv = [exe, "run", "--profile", profile, "--seed", str(seed), "--start", str(start), "--count", str(c)]
            if budget_ms:
                argv += ["--budget-ms", str(budget_ms)]
            out.append(argv)
        return out

    def replay(rep, path):
        return [exe, "replay", "--profile", rep.get("profile", profile), "--scenario-seed", str(rep["scenario_seed"]),
                "--index", str(rep.get("index", 0)), "--hook-seed", str(rep.get("hook_seed", 1)), "--verbose"]

    return {
        "name": name or f"vq-sim:{profile}x{count}",
        "engine": "vq-sim",
        "build": {"kind": "native", "packages": ["vq-sim"]},
        "shards": shards,
        "replay": replay,
    }


def bin_job(pkg, args_fn, name, timeout=None, replay=None, engine=None):
    """a native harness binary; args_fn(seed, nproc) -> list of argument lists (one per shard)"""
    exe = os.path.join(TARGET, "debug", pkg)
    job = {
        "name": name,
        "engine": engine or pkg,
        "build": {"kind": "native", "packages": [pkg]},
        "shards": lambda seed, nproc: [[exe] + [str(x) for x in a] for a in args_fn(seed, nproc)],
    }
    if timeout:
        job["timeout"] = timeout
    if replay:
        job["replay"] = lambda rep, path: [exe] + replay(rep, path)
    return job


MIRI_ENV = {
    "CARGO_TARGET_DIR": os.path.join(ROOT, "target-miri"),
    "MIRIFLAGS": "-Zmiri-disable-isolation",
}


def miri_job(pkg, args_fn, name, warm_args, timeout=None):
    """the same binary interpreted by Miri (UB / data-race / borrow reports abort the process)"""
    base = ["cargo", "+nightly", "miri", "run", "-q", "--offline", "-p", pkg, "--"]
    job = {
        "name": name,
        "engine": pkg,
        "sanitizer": "miri",
        "env": MIRI_ENV,
        "build": {"kind": "cmd", "cmd": base + [str(x) for x in warm_args], "env": MIRI_ENV},
        "shards": lambda seed, nproc: [base + [str(x) for x in a] for a in args_fn(seed, nproc)],
    }
    if timeout:
        job["timeout"] = timeout
    return job


SIM_ASSUME = [
    "the deterministic IO provider (bach executor, virtual clock) of s2n-quic-platform stands in for real sockets and timers",
    "cleartext frames are observed through the unstable packet-interceptor provider and parsed by the independent reference parser vq-wire",
    "TLS is the default s2n-tls provider with the repository's test certificates",
]

PROPS = {
    "C01": {
        "level": "exploration",
        "rule": "each evaluation is one seeded end-to-end simulation (1-3 clients, 1-8 streams per connection, both initiators, "
                "sizes/chunkings/read modes/windows/MTU/controller drawn from the seed, per-direction fault phases: loss, "
                "duplication, reordering, corruption, truncation, MTU drop). Non-trivial = the execution exercised at least one of "
                "loss, reordering, duplication, corruption, flow-control blocking, retransmission, application reset; distinct = "
                "hash of the discretised configuration x the set of mechanisms observed.",
        "assumptions": SIM_ASSUME + ["payload is a position-keyed PRF stream per (connection, stream, direction)"],
        "tiers": {"quick": [sim_job("C01", 960)], "thorough": [sim_job("C01", 32000)]},
        "min_quick": {"evaluations": 900, "c01.bytes_compared": 50_000_000, "c01.streams_completed": 2000},
        "min_thorough": {"evaluations": 30000, "c01.bytes_compared": 1_000_000_000},
    },
    "C02": {
        "level": "exploration",
        "rule": "two workloads. (1) must-deliver: seeded simulations whose fault period (loss, bursts, blackhole windows, duplication, "
                "corruption, reordering, targeted drops of MAX_* / *_BLOCKED / HANDSHAKE_DONE datagrams, dropped handshake datagrams) is finite "
                "(<= 5 s) with idle/handshake timeouts >= 4x that period + 2 s, benign applications, tiny windows forcing every blocking kind: "
                "no operation may fail, every finished stream must complete, nothing may be pending at the virtual deadline, the simulator must "
                "not stall. (2) never-recovers: an enumerated finite fault set - permanent blackhole after datagram #k (k = 0..39) of the "
                "client->server, server->client or both directions, plus time-based blackholes - where every endpoint must report the failure "
                "within max(idle, 3 PTO) of the last possible idle-timer restart (max_handshake_duration before the handshake completes). "
                "Non-trivial = blocking / loss / drops occurred; distinct = hash of configuration x mechanisms observed.",
        "assumptions": SIM_ASSUME + ["liveness is restated as bounded progress in virtual time (T_max 900 s / 300 s)",
                                     "Retry is off in must-deliver runs: expired Retry tokens (1-2 s lifetime) are dropped silently, which RFC 9000 8.1.2 permits"],
        "tiers": {"quick": [sim_job("C02", 640), sim_job("C02bh", 160)], "thorough": [sim_job("C02", 16000), sim_job("C02bh", 3200)]},
        "min_quick": {"evaluations": 760, "c02.must_deliver_runs": 600, "c02.never_recovers_runs": 150, "c02.failure_reports_timed": 150,
                      "c02.runs_blocked_on.stream-credit": 200, "c02.runs_blocked_on.connection-credit": 150,
                      "c02.runs_blocked_on.stream-count": 100, "c02.runs_blocked_on.congestion": 200, "c02.flows_completed": 5000},
        "min_thorough": {"evaluations": 18000, "c02.must_deliver_runs": 15000, "c02.never_recovers_runs": 3000},
    },
    "C03": {
        "level": "exploration",
        "rule": "each evaluation is one seeded end-to-end simulation biased to tiny and odd limits (1, 2, 1000, 2^14+-1 byte windows; "
                "1-6 stream-count limits with up to 12 opens) with lossy/reordering networks and application resets. Non-trivial = a "
                "STREAM frame landed exactly on a stream/connection/stream-count limit or the sender was blocked on one; distinct = "
                "hash of configuration x mechanisms observed.",
        "assumptions": SIM_ASSUME + ["initial_max_data of the peer is taken from the configuration the harness gave it (the event omits it)"],
        "tiers": {"quick": [sim_job("C03", 960)], "thorough": [sim_job("C03", 32000)]},
        "min_quick": {"evaluations": 900, "c03.frames_checked": 500_000, "c03.tight_stream_limit": 10_000, "c03.resets_checked": 1000},
        "min_thorough": {"evaluations": 30000, "c03.frames_checked": 10_000_000},
    },
    "C04": {
        "level": "exploration",
        "rule": "each evaluation is one seeded end-to-end simulation. 21 of 24 scenario kinds: an honest s2n-quic peer whose packet interceptor "
                "replaces the cleartext of ONE outgoing packet (after a random honest prefix) with frames breaking one transport rule - 19 "
                "attacks (stream/connection data beyond the limit by 1 byte or 2^40, stream id beyond MAX_STREAMS by 0..1000, data beyond / "
                "changed / undercut final size, STREAM on a send-only or unopened stream, MAX_STREAM_DATA / STOP_SENDING on a receive-only "
                "stream, MAX_STREAMS > 2^60, malformed NEW_CONNECTION_ID, HANDSHAKE_DONE / NEW_TOKEN from a client, STREAM in Handshake space, "
                "MAX_DATA in Initial space, CRYPTO beyond the buffer in Handshake space, RESET_STREAM beyond the stream limit) and 2 benign "
                "controls exactly at a limit; both roles. 3 of 24: honest runs with hostile applications and lossy networks for the credit "
                "bound. Non-trivial = the attack packet was authenticated by the victim, or MAX_* frames were checked; distinct = hash of "
                "configuration x mechanisms observed.",
        "assumptions": SIM_ASSUME + ["the attacker is an honest s2n-quic endpoint whose outgoing cleartext is rewritten before encryption; malformed headers are C05/C06, dishonest TLS is C14",
                                     "frames for streams the victim has already closed are ignored by design and not used as attacks"],
        "tiers": {"quick": [sim_job("C04", 960)], "thorough": [sim_job("C04", 19200)]},
        "min_quick": {"evaluations": 900, "c04.attacks_delivered": 700, "c04.attacks_rejected": 600, "c04.controls_run": 60, "c04.max_stream_data_checked": 8000, "c04.max_data_checked": 6000, "c04.honest_runs": 100},
        "min_thorough": {"evaluations": 18000, "c04.attacks_delivered": 14000},
    },
    "C06": {
        "level": "exploration",
        "rule": "each evaluation is one seeded end-to-end simulation in which an attacker inside the network injects, once every connection is "
                "established, 100-600 datagrams between the genuine ones: random bytes behind a live header+connection id, copies with 1-8 "
                "flipped bits, truncated / extended / spliced copies, copies carrying another flow's connection id, exact replays (at once, "
                "delayed up to 2 s, one victim replayed 50-300 times). Two thirds of the scenarios leave genuine traffic untouched (then "
                "nothing at all may fail), one third is lossy/reordering as well. Non-trivial = datagrams were injected; distinct = hash of "
                "configuration x mechanisms observed.",
        "assumptions": SIM_ASSUME + ["one cipher suite (the one the default TLS provider negotiates); constant-time behaviour is not observable",
                                     "forgeries target 1-RTT (short header) packets of established connections"],
        "tiers": {"quick": [sim_job("C06", 640)], "thorough": [sim_job("C06", 16000)]},
        "min_quick": {"evaluations": 600, "c06.injected_datagrams": 200_000, "c06.rejected_by_authentication": 40_000,
                      "c06.replays_suppressed": 80_000, "c06.pure_injection_runs": 350, "c06.authenticated_packets": 300_000},
        "min_thorough": {"evaluations": 15000, "c06.injected_datagrams": 5_000_000},
    },
    "C08": {
        "level": "exploration",
        "rule": "each evaluation is one seeded end-to-end simulation on a lossy, reordering, duplicating (not corrupting) network. "
                "Non-trivial = loss, reordering, gaps, duplicates or ACK-range eviction occurred; distinct = hash of configuration x "
                "mechanisms observed. Oracles: ACK ranges subset of RX-tap set; pn strictly increasing; ack latency vs max_ack_delay "
                "with cause attribution; truncated pn expands from the largest acknowledged; genuine intact datagrams never fail decryption.",
        "assumptions": SIM_ASSUME + ["packet-number length is derived from datagram size for single short-header packet datagrams"],
        "tiers": {"quick": [sim_job("C08", 960)], "thorough": [sim_job("C08", 32000)]},
        "min_quick": {"evaluations": 900, "c08.ack_ranges": 1_000_000, "c08.acks_timed": 500_000, "c08.truncations_checked": 500_000},
        "min_thorough": {"evaluations": 30000, "c08.ack_ranges": 20_000_000},
    },
    "C09": {
        "level": "exploration",
        "rule": "each evaluation is one seeded end-to-end simulation with loss/reordering/duplication of data and ACK datagrams, half of them "
                "with path RTT >= 40 ms. Non-trivial = loss declarations, PTO probes or space discards with packets outstanding occurred; "
                "distinct = hash of configuration x mechanisms observed.",
        "assumptions": SIM_ASSUME + ["RTT values used by a loss decision are those of the recovery_metrics event preceding or following it; timers may fire 1 ms early (kGranularity)"],
        "tiers": {"quick": [sim_job("C09", 960), sim_job("C09bh", 160)], "thorough": [sim_job("C09", 32000), sim_job("C09bh", 3200)]},
        "min_quick": {"evaluations": 1000, "c09.loss_declarations": 100_000, "c09.cc_calls_checked": 2_000_000, "c09.pto_backoff_steps_checked": 800},
        "min_thorough": {"evaluations": 30000, "c09.loss_declarations": 3_000_000},
    },
    "C10": {
        "level": "exploration",
        "rule": "two engines. (a) component histories (vq-cc): CUBIC and BBRv2 driven through the CongestionController trait with seeded legal "
                "histories (send / rtt update / ack / loss with persistent congestion and loss bursts / ECN / MTU change / discard, datagram "
                "sizes 1200..9000) against a shadow of outstanding packets, checked after every call; every loss-detection pass is also fed to "
                "recovery::persistent_congestion::Calculator, whose duration must equal a batch model of RFC 9002 7.6.2. (b) live gating (vq-sim): the proxy around "
                "the real controllers of live connections records every call; each congestion-controlled send must happen with bytes in flight "
                "below the window unless the packet_sent event names a PTO probe or the controller required a fast retransmission; window floor "
                "(2 / 4 datagrams) and CUBIC monotonicity on loss/ECN are checked on every live call. Non-trivial = loss, persistent congestion, "
                "MTU change or a send at the window limit occurred; distinct = hash of configuration x mechanisms observed.",
        "assumptions": SIM_ASSUME + [],
        "tiers": {"quick": [sim_job("C10", 640)], "thorough": [sim_job("C10", 16000)]},
        "min_quick": {"evaluations": 600, "c10.sends_checked": 500_000, "c10.calls_checked": 800_000, "c10.sent_at_limit.pto-probe": 500, "c10.sent_at_limit.fast-retransmission": 1000},
        "min_thorough": {"evaluations": 15000, "c10.sends_checked": 10_000_000},
    },
    "C11": {
        "level": "exploration",
        "rule": "handshake-centred seeded simulations, three kinds by scenario index: (0) enumerated single and double drops of handshake "
                "datagram positions 0..11 in either direction (finite fault set, covered once per 3*2*12*13*2 indices), (1) random loss / "
                "duplication / far reordering during the first seconds with client address rebinding mid-handshake, (2) 4-24 datagrams that "
                "belong to no connection (garbage, short header + unknown CID, unknown version, Version Negotiation, undersized Initials; "
                "sizes 1..1500) fired from raw sockets. Non-trivial = drops/duplicates/Retry/rebinding occurred or the server came within "
                "one datagram of the 3x limit; distinct = hash of configuration x mechanisms observed.",
        "assumptions": SIM_ASSUME + ["the tap counts every datagram delivered to the server's socket as received (>= what the server credits: lenient)",
                                     "stateless resets are enabled with a deterministic token generator (the default provider keeps them off)"],
        "tiers": {"quick": [sim_job("C11", 960)], "thorough": [sim_job("C11", 24000)]},
        "min_quick": {"evaluations": 900, "c11.unvalidated_datagrams_checked": 2500, "c11.probes_delivered": 3000,
                      "c11.probe_reply.stateless-reset-like": 500, "c11.client_initial_datagrams": 4000, "c11.runs_server_at_limit": 20},
        "min_thorough": {"evaluations": 23000, "c11.unvalidated_datagrams_checked": 60000},
    },
    "C13": {
        "level": "exploration",
        "rule": "each evaluation is one seeded end-to-end simulation with 1-3 clients, peer limits 2..8, handshake-id rotation on/off, half of them "
                "long-lived (150-300 s virtual, keep-alive, connection-id lifetimes 60-100 s so ids expire and retire_prior_to is used), 0-4 "
                "client address rebinds (forcing new ids into use), targeted loss of NEW_CONNECTION_ID / RETIRE_CONNECTION_ID datagrams. "
                "Non-trivial = ids were retired, retire_prior_to was used, the issuer sat at the peer's limit, or the path migrated; distinct = "
                "hash of configuration x mechanisms observed.",
        "assumptions": SIM_ASSUME + ["s2n-quic caps the advertised active_connection_id_limit at 3, so larger peer limits are not reachable between two s2n-quic endpoints",
                                     "zero-length client connection ids are exercised by the quiche client of C07, not here"],
        "tiers": {"quick": [sim_job("C13", 640)], "thorough": [sim_job("C13", 12800)]},
        "min_quick": {"evaluations": 600, "c13.cids_issued": 15000, "c13.cids_retired_by_peer": 10000, "c13.routed_packets_checked": 400_000, "c13.retire_packets_checked": 10000, "c13.at_limit": 8000},
        "min_thorough": {"evaluations": 12000, "c13.cids_issued": 300_000},
    },
    "C14": {
        "level": "exploration",
        "rule": "two engines. (a) decode vs table (vq-c05 --check tp): seeded parameter blocks (every parameter at / inside / outside each bound, "
                "subsets, orders, duplicates, unknown and reserved ids, bad lengths, server-only parameters in client blocks, both roles) decoded "
                "by the real decoders and judged by the table transcribed from RFC 9000 7.4 / 18.2 (accept / reject / don't care). (b) handshake "
                "outcome (vq-sim): a wrapper around the real TLS endpoint hands one side a rewritten block - 18 invalid cases must make the other "
                "side fail with TRANSPORT_PARAMETER_ERROR (or a generic code), 9 valid cases (unknown / reserved ids, values exactly at a bound, "
                "non-minimal varint, tight limits) must be accepted, and under tight limits the receiver is held to them by the C03 oracle. "
                "Non-trivial = a block at a bound / an invalid block / limits that bound; distinct = hash of case x configuration.",
        "assumptions": SIM_ASSUME + ["initial_max_data is not part of the transport_parameters_received event; the rewritten value is given to the limit monitor directly"],
        "tiers": {"quick": [sim_job("C14", 432)], "thorough": [sim_job("C14", 8640)]},
        "min_quick": {"evaluations": 400, "c14.invalid_blocks": 250, "c14.rejected_as_expected": 250, "c14.valid_blocks": 120},
        "min_thorough": {"evaluations": 8000},
    },
    "C15": {
        "level": "exploration",
        "rule": "two engines. (a) component (vq-cc keys): two KeySets joined by a reordering / duplicating / dropping channel with an instrumented "
                "key and tiny limits, checked after every step. (b) live (vq-sim + hook H1): connections whose 1-RTT keys become due for an update "
                "every 500-1550 packets carry 1.5-3 MB in each direction under loss, duplication and reordering within one PTO; data must stay "
                "intact (C01 oracle), genuine intact datagrams must decrypt (C08 oracle), generations advance by one, the two ends never differ "
                "by more than one generation, no close with a crypto / AEAD error. Non-trivial = at least one key update happened; distinct = "
                "hash of configuration x mechanisms observed.",
        "assumptions": SIM_ASSUME + ["production AEAD limits (2^23 packets) are never reached; hook H1 only moves the point where an update becomes due",
                                     "updates are kept several PTOs apart (RFC 9001 6.5) by bounding the rate with a 120 kB connection window"],
        "tiers": {"quick": [sim_job("C15", 192)], "thorough": [sim_job("C15", 4800)]},
        "min_quick": {"evaluations": 180, "c15.key_updates": 1000, "c08.genuine_authenticated": 1_000_000},
        "min_thorough": {"evaluations": 4500, "c15.key_updates": 25000},
    },
    "C16": {
        "level": "exploration",
        "rule": "each evaluation is one operation sequence run against the real Reassembler / IntervalSet<u8|u64|PacketNumber> / "
                "ack::Ranges / packet::number::Map / SlidingWindow and an independent executable model (byte map, BTreeSet, BTreeMap, "
                "window rule), compared after EVERY operation (return value, error class, every observable incl. a full content "
                "snapshot, bytes = position-keyed PRF). Random sequences are boundary-biased (slot edge 4096, allocation edges "
                "65536 / 262144 / 1 MiB, 2^62-n, window edges 127/128/129); the exhaustive job enumerates ALL sequences of depth 3 "
                "(quick) / 4 (thorough) over a 40-symbol alphabet placed on the real 4096-byte slot edge; the Miri jobs interpret a "
                "small workload (UB, uninitialised reads, invalid retags abort the process and are violations). Non-trivial = the "
                "sequence hit at least one non-boring class (overlap classes, slot/allocation edges, rejections, evictions ...); "
                "distinct = hash of (structure, set of classes hit).",
        "assumptions": ["the slot size of the reassembler is a private constant, so the exhaustive alphabet sits on the real 4096-byte edge",
                        "Miri interprets the harness as well: its workloads are small (about 150 operations per process)"],
        "tiers": {
            "quick": [
                bin_job("vq-c16", lambda seed, n: [["--mode", "random", "--seed", seed * 1000 + i, "--iters", 5000] for i in range(n)],
                        "vq-c16:random 16x5000", replay=lambda rep, path: ["--replay", path]),
                bin_job("vq-c16", lambda seed, n: [["--mode", "exhaustive", "--depth", 3, "--alphabet", "small"]], "vq-c16:exhaustive depth 3"),
                miri_job("vq-c16", lambda seed, n: [["--mode", "miri", "--seed", seed * 100 + i, "--iters", 120] for i in range(4)],
                         "vq-c16:miri 4x120 ops", ["--mode", "miri", "--seed", 0, "--iters", 2], timeout=1200),
            ],
            "thorough": [
                bin_job("vq-c16", lambda seed, n: [["--mode", "random", "--seed", seed * 1000 + i, "--iters", 400000] for i in range(n)],
                        "vq-c16:random 16x400000", replay=lambda rep, path: ["--replay", path]),
                bin_job("vq-c16", lambda seed, n: [["--mode", "exhaustive", "--depth", 4, "--alphabet", "small", "--start", i * 160000, "--iters", 160000]
                                                   for i in range(16)], "vq-c16:exhaustive depth 4 (2.56M sequences)"),
                bin_job("vq-c16", lambda seed, n: [["--mode", "exhaustive", "--depth", 3, "--alphabet", "full"]], "vq-c16:exhaustive depth 3 full alphabet"),
                miri_job("vq-c16", lambda seed, n: [["--mode", "miri", "--seed", seed * 100 + i, "--iters", 400] for i in range(16)],
                         "vq-c16:miri 16x400 ops", ["--mode", "miri", "--seed", 0, "--iters", 2], timeout=3600),
            ],
        },
        "min_quick": {"evaluations": 100_000, "ops": 1_500_000, "bytes_compared": 500_000_000, "edge.across_slot": 50_000},
        "min_thorough": {"evaluations": 8_000_000},
    },
    "C12": {
        "level": "exploration",
        "rule": "each evaluation is one seeded end-to-end simulation with hostile applications (reset, stop_sending, abrupt close with data in "
                "flight) over lossy networks. Non-trivial = retransmission (also in a different segmentation), RESET_STREAM or CONNECTION_CLOSE "
                "was sent; distinct = hash of configuration x mechanisms observed.",
        "assumptions": SIM_ASSUME,
        "tiers": {"quick": [sim_job("C12", 960)], "thorough": [sim_job("C12", 32000)]},
        "min_quick": {"evaluations": 900, "c12.stream_frames": 500_000, "c12.retransmitted_bytes": 10_000_000, "c12.resets": 1000, "c12.close_episodes": 500},
        "min_thorough": {"evaluations": 30000, "c12.stream_frames": 10_000_000},
    },
}


# ---------------------------------------------------------------------------
# component engines built as separate crates

def _c05(check, iters, shards=16):
    return bin_job("vq-c05", lambda seed, n: [["--check", check, "--seed", seed * 1000 + i, "--iters", iters] for i in range(shards)],
                   f"vq-c05:{check} {shards}x{iters}", replay=lambda rep, path: ["--check", check, "--replay", path])


def _c05_miri(check, iters, shards):
    return miri_job("vq-c05", lambda seed, n: [["--check", check, "--mode", "miri", "--seed", seed * 100 + i, "--iters", iters] for i in range(shards)],
                    f"vq-c05:{check} under miri {shards}x{iters}", ["--check", check, "--mode", "miri", "--seed", 0, "--iters", 2], timeout=2400)


PROPS["C05"] = {
    "level": "exploration",
    "rule": "each evaluation is one input decoded by the real s2n-codec / s2n-quic-core decoders AND by the independent reference parser vq-wire "
            "(RFC 9000 16-19): random bytes, grammar-generated valid frames / packets / varints / parameter blocks with boundary-biased fields "
            "(2^6, 2^14, 2^30, 2^60, 2^62 +-), legal non-minimal varints, 1-4 byte mutations / truncations / extensions, frame sequences and "
            "coalesced datagrams. Oracles: totality (no panic, progress on every decode, watchdog), exact round trip incl. announced encoding "
            "size, field-by-field layout agreement, shortest-form varints from the encoders. Non-trivial = anything but plain random bytes that "
            "both sides reject at the first byte; distinct = hash of (input class, frame/packet kind, boundary hit, mutation kind, accept/reject). "
            "The same oracle also runs under the Miri interpreter on a reduced input set.",
    "assumptions": ["vq-wire is the reference; disagreement classes the RFC leaves open are don't-care (listed in harness/vq-c05/README.md)",
                    "header protection / AEAD are the null test ciphers of s2n-quic-core's testing feature: only layout is judged here"],
    "tiers": {"quick": [_c05("codec", 250_000), _c05_miri("codec", 300, 2)],
              "thorough": [_c05("codec", 8_000_000), _c05_miri("codec", 1500, 16)]},
    "min_quick": {"evaluations": 3_500_000},
    "min_thorough": {"evaluations": 100_000_000},
}

PROPS["C08"]["tiers"]["quick"].append(_c05("pn", 250_000))
PROPS["C08"]["tiers"]["thorough"].append(_c05("pn", 8_000_000))
PROPS["C08"]["rule"] += (" A component job (vq-c05 --check pn) drives truncate/expand over [0, 2^62) biased to the 2^8/2^16/2^24/2^32 distance "
                         "edges for every largest_received a receiver could have and compares with the RFC 9000 A.2/A.3 transcription.")
PROPS["C14"]["tiers"]["quick"].append(_c05("tp", 60_000))
PROPS["C14"]["tiers"]["thorough"].append(_c05("tp", 3_000_000))


def _interop(count):
    return bin_job("vq-interop", lambda seed, n: [["--seed", seed, "--start", st, "--count", c] for st, c in _split(count, n)],
                   f"vq-interop x{count}", timeout=2400, replay=lambda rep, path: ["--replay", path, "--verbose"])


PROPS["C07"] = {
    "level": "exploration",
    "rule": "each evaluation is one seeded scenario in which a real s2n-quic endpoint (server or client, alternating) talks to quiche 0.29.3 / "
            "BoringSSL inside the deterministic simulator: 1-4 streams (bidi and uni, both directions, 0..300 KB), s2n-quic windows / stream "
            "limits from tiny to default, quiche initial_max_data from ~20 bytes up, UDP payload sizes 1200..1500, loss 0-10 %, duplication, "
            "reordering. Both views must agree: handshake completes, every byte equals the position-keyed PRF stream, streams end at the exact "
            "length, no transport error on either side. quiche's clock is the simulator's virtual clock (clock_gettime interposition, "
            "self-tested at start-up; paced real-time mode as fallback). Non-trivial = data was exchanged under loss / reordering / blocking; "
            "distinct = hash of (role, window bucket, loss class, stream mix, mechanisms observed).",
    "assumptions": ["one independent implementation (quiche 0.29.3), QUIC v1 only", "ALPN h3 on both sides, the repository's test certificate chain"],
    "tiers": {"quick": [_interop(64)], "thorough": [_interop(4096)]},
    "min_quick": {"evaluations": 60},
    "min_thorough": {"evaluations": 4000},
}


def _cc(check, iters, shards=16):
    return bin_job("vq-cc", lambda seed, n: [["--check", check, "--seed", seed * 1000 + i, "--iters", iters] for i in range(shards)],
                   f"vq-cc:{check} {shards}x{iters}", replay=lambda rep, path: ["--check", check, "--replay", path])


def _cc_miri(check, iters, shards):
    return miri_job("vq-cc", lambda seed, n: [["--check", check, "--mode", "miri", "--seed", seed * 100 + i, "--iters", iters] for i in range(shards)],
                    f"vq-cc:{check} under miri {shards}x{iters}", ["--check", check, "--mode", "miri", "--seed", 0, "--iters", 2], timeout=2400)


PROPS["C10"]["tiers"]["quick"] += [_cc("cc", 1500), _cc_miri("cc", 100, 2)]
PROPS["C10"]["tiers"]["thorough"] += [_cc("cc", 60000), _cc_miri("cc", 300, 8)]
PROPS["C10"]["min_quick"].update({"controller_calls_checked": 10_000_000})
PROPS["C09"]["tiers"]["quick"].append(_cc("rtt", 2000))
PROPS["C09"]["tiers"]["thorough"].append(_cc("rtt", 80000))
PROPS["C09"]["rule"] += (" A component job (vq-cc --check rtt) drives RttEstimator / Pto / the loss-threshold helpers with random sample sequences "
                         "against a transcription of RFC 9002 section 5 and appendix A (1 ms granularity band accepted either way).")
PROPS["C15"]["tiers"]["quick"] += [_cc("keys", 2000), _cc_miri("keys", 30, 2)]
PROPS["C15"]["tiers"]["thorough"] += [_cc("keys", 80000), _cc_miri("keys", 60, 8)]
PROPS["C15"]["min_quick"].update({"key_updates_performed": 100_000})


# ---------------------------------------------------------------------------------------------
# C17: vq-sync (engine E3) through its own multi-process runner (one scenario+seed per process)

def _sync(tool, nseeds, scenarios="all", iters=None, extra=(), timeout=None):
    runner = os.path.join(HARNESS, "vq-sync", "run_sanitized.py")

    def shards(seed, nproc):
        a = seed * 1000
        argv = ["python3", runner, "--tool", tool, "--seeds", f"{a}..{a + nseeds}", "--scenarios", scenarios, "--jobs", str(nproc)]
        if iters:
            argv += ["--iters", str(iters)]
        return [argv + list(extra)]

    if tool == "native":
        build = {"kind": "native", "packages": ["vq-sync"]}
    else:
        # the runner builds (once) what it needs; warm it up with a one-process run
        build = {"kind": "cmd", "cmd": ["python3", runner, "--tool", tool, "--seeds", "0..1", "--scenarios", "spsc_plain", "--jobs", "1"]}
    job = {"name": f"vq-sync:{tool} {nseeds} seeds x {scenarios}", "engine": "vq-sync", "build": build, "shards": shards}
    if tool != "native":
        job["sanitizer"] = tool
    job["timeout"] = timeout or (2400 if tool == "native" else 5400)
    return job


PROPS["C17"] = {
    "level": "exploration",
    "rule": "each evaluation is one execution of one bounded multi-threaded scenario (26 scenarios over spsc capacity 2, worker, cursor and "
            "atomic_waker: a few batches, close/drop of either side at every point, cloned handles) in its own process, with a history monitor "
            "(unique heap items, exactly-once/in-order/no-unwritten-slot ledger, a parked task must be woken within a bounded number of steps "
            "after the condition it waits for holds). Interleavings are sampled, not enumerated: natively with hook H3 failpoints injecting "
            "yields/spins/sleeps between critical sections; under Miri one -Zmiri-seed = one preemption schedule + one weak-memory outcome "
            "(data races, stale loads, Stacked Borrows, use-after-free, leaks, deadlock = lost wake-up abort the process and are violations); "
            "thorough adds ThreadSanitizer and AddressSanitizer builds on real threads. Non-trivial = the execution parked or raced at least "
            "once; distinct = hash of the monitor's merged event order (distinct interleavings).",
    "assumptions": ["bounded scenarios (capacity 2, a few batches) as the property itself is stated", "interleavings and weak-memory outcomes are sampled",
                    "wakeup_queue is not covered (needs the connection container)"],
    "tiers": {
        "quick": [_sync("native", 16, iters=200), _sync("miri", 6, extra=["--group"])],
        "thorough": [_sync("native", 64, iters=2000), _sync("miri", 64, extra=["--group"], timeout=4 * 3600),
                     _sync("tsan", 16, timeout=4 * 3600), _sync("asan", 8, timeout=4 * 3600)],
    },
    "min_quick": {"evaluations": 50_000, "distinct_interleavings": 5_000, "processes.clean": 400},
    "min_thorough": {"evaluations": 500_000, "distinct_interleavings": 50_000},
}


# ---------------------------------------------------------------------------------------------
# C18-C20: vq-dc (engine E5)

def _dc(check, iters, shards=16, extra=()):
    return bin_job("vq-dc", lambda seed, n: [["--check", check, "--seed", seed * 1000 + i, "--iters", iters] + list(extra) for i in range(shards)],
                   f"vq-dc:{check} {shards}x{iters}", replay=lambda rep, path: ["--check", rep.get("check", check), "--replay", path], timeout=3000)


PROPS["C18"] = {
    "level": "exploration",
    "rule": "each evaluation is one genuine s2n-quic-dc packet (stream, stream-recovery, stream-retransmission, datagram, control, StaleKey, "
            "ReplayDetected, UnknownPathSecret; grammar-generated fields, payload 0..8.9 KB, both cipher suites, real aws-lc keys) that is "
            "encoded, decoded and opened (field-for-field round trip), then mutated: every byte position x 4 masks (all positions up to 1200 B, "
            "else header+tag+sampled payload), every truncation, insert/delete, splices with sibling packets, re-keyed copies, random byte "
            "strings - a mutant must not open. The path::secret::Map is the victim of forged control packets in five map states through its "
            "three entry points (events, entries, handshake requests and the next key id must be untouched; the genuine packet is the "
            "positive control), data packets go through Map::open_once / pair_for_credentials. Live part: dc streams in the simulator on a "
            "loss-free network where genuine datagrams are accompanied (or preceded) by targeted forgeries - one bit of the tag, one bit of the "
            "encrypted payload / control data, or value bits of the stream-offset field raised so that the copy parses as the same packet far "
            "beyond the receive window; none can verify, so every stream must still complete byte-exact. Non-trivial = packet with optional fields / "
            "payload; distinct = hash of (kind, suite, field classes).",
    "assumptions": ["path secrets are inserted through the public handshake API with a harness-chosen exporter secret (no hook)",
                    "the decoders are driven through the generic packet::Packet entry point"],
    "tiers": {"quick": [_dc("c18", 80, extra=["--evict-control", "1"]), _dc("c20", 5, extra=["--class", "forged_targeted"])],
              "thorough": [_dc("c18", 3000, extra=["--evict-control", "1"]), _dc("c20", 150, extra=["--class", "forged_targeted"])]},
    # violations of the live-stream part carry the stream engine's property id; in this check they are C18's
    "adopt": ["C20"],
    "min_quick": {"evaluations": 20_000, "b1_mutants": 3_000_000, "b2_deliveries": 1_500_000, "b3_mutants": 1_000_000, "a_round_trips": 10_000,
                  "packets_forged": 100_000, "forged_targeted.stream_offset_jump": 1_000, "forged_targeted.control_tag_bit": 10_000},
    "min_thorough": {"evaluations": 700_000, "b1_mutants": 100_000_000},
}

PROPS["C19"] = {
    "level": "exploration",
    "rule": "each evaluation is one key id (mode a: receiver::State against the model {accepted set, max}: Ok required iff not yet accepted and "
            "above or within 896 of the max, Ok forbidden iff already accepted; dense permutations, exact window edges 893..898, huge jumps, "
            "the reserved maximum), one concurrent receiver round (mode b: 2-8 threads, overlapping id lists, each id accepted at most once "
            "globally and every id inside the window of every linearisation accepted by someone) or one concurrent sealer round (mode c: "
            "seal_once / seal_once_id / pair on one secret while genuine StaleKey packets arrive: ids pairwise distinct, ids issued after an "
            "accepted StaleKey(m) returned are >= m). Thorough repeats b and c under ThreadSanitizer. Distinct = hash of (mode, segment class, "
            "thread count, window-edge classes hit).",
    "assumptions": ["thread interleavings are sampled on real threads (and under TSan), not enumerated"],
    "tiers": {"quick": [_dc("c19", 400)], "thorough": [_dc("c19", 12000)]},
    "min_quick": {"evaluations": 10_000, "a_ids_checked": 2_000_000, "b_ids_contended": 300_000, "c_key_ids_issued": 500_000, "c_stale_key_accepted": 20_000},
    "min_thorough": {"evaluations": 300_000, "a_ids_checked": 60_000_000},
}

PROPS["C20"] = {
    "level": "exploration",
    "rule": "each evaluation is one scenario of 1-6 dc streams between the crate's testing Client/Server: UDP inside the bach simulator with a "
            "seeded faulty network (random / burst / k-th packet loss 0.1-30 %, duplication, jitter => reordering, MTU 1250..8940, blackhole, "
            "mute server, server drop_state, the peer vanishing right behind the packet that announces the final offset while a gap remains; writers "
            "using AsyncWrite, Writer::write_from and write_all_from_fin), including a fault enumeration (a small flow re-run once per k with exactly its k-th packet "
            "dropped), and TCP over loopback. Oracle: position-keyed PRF bytes in both directions; every read checked at its absolute position, "
            "never ahead of what was written; Ok(0) only at the length the writer finished at; with a vanished peer or forgotten secrets the "
            "operations fail within idle timeout (+5 s); nothing may still be pending at the virtual deadline. A stream that reports an "
            "error although its peer is alive is counted (c20.observed.*), not flagged, while random loss is going on (C20 promises exactness or a "
            "prompt error, not delivery); it is a violation when the faults were finite - at most two named datagrams dropped on an otherwise "
            "perfect network, or none. "
            "Non-trivial = faults were actually injected or sizes above one packet; distinct = hash of the scenario's feature vector.",
    "assumptions": ["TCP faults are application-side only (early drop, tiny reads, half-close)", "MTU above 8950 is clamped by the crate"],
    "tiers": {"quick": [_dc("c20", 40)], "thorough": [_dc("c20", 1200)]},
    "min_quick": {"evaluations": 600},
    "min_thorough": {"evaluations": 15_000},
}


PROPS["C14"]["tiers"]["quick"].append(sim_job("C14idle", 120))
PROPS["C14"]["tiers"]["thorough"].append(sim_job("C14idle", 2400))
PROPS["C14"]["rule"] += (" A third job (profile C14idle) gives the two endpoints different max_idle_timeout values (one of them possibly none) and "
                         "then blackholes the path for good after the handshake: both ends must report the failure within the value that applies "
                         "(the smaller one, or the only one), judged by C02's failure-report deadline oracle.")
