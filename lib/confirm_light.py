#!/usr/bin/env python3
"""Light confirmation of a seeded change when there is no time for lib/confirm_seed.py (which
runs the pinned suite over every reverse dependency): in a scratch worktree
  1. patch.diff applies; the unit tests (`--lib`) of the crates it touches still pass;
  2. with demo.diff added the demonstration fails;
  3. with the patch reverted the demonstration passes.
Writes seeded/<id>/confirm_light.json. Usage: lib/confirm_light.py <id> [...]  (--clean removes the scratch)
"""
import json, os, re, subprocess, sys, time

ROOT = os.path.dirname(os.path.dirname(os.path.abspath(__file__)))
WT, T = "/var/tmp/confirm-light", "/var/tmp/confirm-light-target"
ENV = dict(os.environ, CARGO_TARGET_DIR=T, CARGO_NET_OFFLINE="true")
ENV.pop("RUSTFLAGS", None)


def sh(cmd, cwd=None):
    r = subprocess.run(cmd, shell=True, cwd=cwd, env=ENV, stdout=subprocess.PIPE, stderr=subprocess.STDOUT, text=True)
    return r.returncode, r.stdout


def crates(patch):
    names = set()
    for line in open(patch):
        if line.startswith("+++ b/"):
            d = os.path.dirname(line[6:].strip())
            while d:
                toml = os.path.join(WT, d, "Cargo.toml")
                if os.path.exists(toml):
                    m = re.search(r'^name\s*=\s*"([^"]+)"', open(toml).read(), re.M)
                    if m:
                        names.add(m.group(1))
                    break
                d = os.path.dirname(d)
    return sorted(names)


def results(out):
    return re.findall(r"test result: (\w+)\. (\d+) passed; (\d+) failed", out)


def main():
    if "--clean" in sys.argv:
        sh(f"git -C /repo worktree remove --force {WT}")
        sh(f"rm -rf {WT} {T}")
        return
    if not os.path.isdir(WT):
        sh(f"git -C /repo worktree add --detach {WT} HEAD")
    for sid in [a for a in sys.argv[1:] if not a.startswith("--")]:
        d = os.path.join(ROOT, "seeded", sid)
        meta = json.load(open(os.path.join(d, "meta.json")))
        res = {"when": time.strftime("%F %T"), "repo_head": sh("git -C /repo rev-parse --short HEAD")[1].strip()}
        sh(f"git -C {WT} checkout -- . && git -C {WT} clean -fdq")
        rc, out = sh(f"git -C {WT} apply {d}/patch.diff")
        if rc:
            res["error"] = "patch does not apply: " + out[-300:]
        else:
            res["touched_crates"] = crates(os.path.join(d, "patch.diff"))
            unit = []
            for c in res["touched_crates"]:
                rc, out = sh(f"cargo test --offline -p {c} --lib 2>&1 | tail -5", cwd=WT)
                unit.append({"crate": c, "results": results(out), "tail": out[-300:]})
            res["unit_tests_with_patch"] = unit
            rc, out = sh(f"git -C {WT} apply {d}/demo.diff")
            if rc:
                res["error"] = "demo does not apply: " + out[-300:]
            else:
                res["demo_with_patch"] = []
                for cmd in meta["demo_cmds"]:
                    rc, out = sh(cmd + " 2>&1 | tail -12", cwd=WT)
                    res["demo_with_patch"].append({"cmd": cmd, "results": results(out), "tail": out[-400:]})
                sh(f"git -C {WT} apply -R {d}/patch.diff")
                res["demo_without_patch"] = []
                for cmd in meta["demo_cmds"]:
                    rc, out = sh(cmd + " 2>&1 | tail -12", cwd=WT)
                    res["demo_without_patch"].append({"cmd": cmd, "results": results(out), "tail": out[-400:]})
                unit_ok = all(u["results"] and all(int(f) == 0 for _, _, f in u["results"]) for u in unit)
                fails = any(int(f) > 0 for x in res["demo_with_patch"] for _, _, f in x["results"])
                passes = all(x["results"] and all(int(f) == 0 for _, _, f in x["results"]) and any(int(p) > 0 for _, p, _ in x["results"]) for x in res["demo_without_patch"])
                res["confirmed_light"] = bool(unit_ok and fails and passes)
        json.dump(res, open(os.path.join(d, "confirm_light.json"), "w"), indent=1)
        print(sid, "CONFIRMED (light)" if res.get("confirmed_light") else "NOT CONFIRMED", res.get("error", ""), flush=True)
    sh(f"git -C {WT} checkout -- . && git -C {WT} clean -fdq")


if __name__ == "__main__":
    main()
